"""Per-property run plans for ./check.

Each entry: run = go test -run regex alternative(s) (joined by |), checks = rapid case
count, shards = number of processes with distinct PRNG values, race = use the -race
binary, timeout = seconds, env = extra environment knobs read by the test.
"""

LEVEL = {
    "C09": "fault_enumeration",
    "C15": "fault_enumeration",
}

ASSUMPTIONS = {
    "C12": [
        "time.Now() in the harness and in the cache read the same monotonic clock",
        "expiry is judged with interval logic, so outcomes inside the measurement uncertainty are accepted either way",
    ],
}

PLAN = {
    "C01": {
        "wtf": True,
        "quick": [
            {"run": "TestC01_Engine", "checks": 6000},
            {"run": "TestC01_Shipped", "checks": 150},
            {"run": "TestC01_CLI", "checks": 120},
        ],
        "thorough": [
            {"run": "TestC01_Engine", "checks": 300000, "shards": 12, "timeout": 3000},
            {"run": "TestC01_Shipped", "checks": 2000, "shards": 2, "timeout": 3000},
            {"run": "TestC01_CLI", "checks": 3000, "shards": 2, "timeout": 3000},
        ],
    },
    "C02": {
        "wtf": True,
        "quick": [
            {"run": "TestC02_Repeat", "checks": 3000},
            {"run": "TestC02_Shipped", "checks": 40},
            {"run": "TestC02_Procs", "checks": 15},
        ],
        "thorough": [
            {"run": "TestC02_Repeat", "checks": 100000, "shards": 12, "timeout": 3000},
            {"run": "TestC02_Shipped", "checks": 400, "shards": 2, "timeout": 3000},
            {"run": "TestC02_Procs", "checks": 400, "shards": 2, "timeout": 3000},
        ],
    },
    "C03": {
        "quick": [
            {"run": "TestC03_Scan", "checks": 5000},
            {"run": "TestC03_Shipped", "checks": 60},
        ],
        "thorough": [
            {"run": "TestC03_Scan", "checks": 200000, "shards": 14, "timeout": 3000},
            {"run": "TestC03_Shipped", "checks": 1000, "shards": 2, "timeout": 3000},
        ],
    },
    "C04": {
        "wtf": True,
        "quick": [
            {"run": "TestC04_Filters", "checks": 6000},
            {"run": "TestC04_CLI", "checks": 60},
        ],
        "thorough": [
            {"run": "TestC04_Filters", "checks": 300000, "shards": 14, "timeout": 3000},
            {"run": "TestC04_CLI", "checks": 2000, "shards": 2, "timeout": 3000},
        ],
    },
    "C05": {
        "quick": [
            {"run": "TestC05_Cache", "checks": 1500},
        ],
        "thorough": [
            {"run": "TestC05_Cache", "checks": 60000, "shards": 16, "timeout": 3000},
        ],
    },
    "C06": {
        "quick": [
            {"run": "TestC06_Retain", "checks": 5000},
            {"run": "TestC06_Analysis", "checks": 20000},
        ],
        "thorough": [
            {"run": "TestC06_Retain", "checks": 200000, "shards": 12, "timeout": 3000},
            {"run": "TestC06_Analysis", "checks": 1000000, "shards": 4, "timeout": 3000},
        ],
    },
    "C07": {
        "quick": [
            {"run": "TestC07_Fallback", "checks": 6000},
            {"run": "TestC07_Known"},
        ],
        "thorough": [
            {"run": "TestC07_Fallback", "checks": 300000, "shards": 15, "timeout": 3000},
            {"run": "TestC07_Known"},
        ],
    },
    "C08": {
        "wtf": True,
        "quick": [
            {"run": "TestC08_Save", "checks": 150},
        ],
        "thorough": [
            {"run": "TestC08_Save", "checks": 6000, "shards": 12, "timeout": 3000},
        ],
    },
    "C09": {
        "wtf": True,
        "quick": [
            {"run": "TestC09_Notebook", "checks": 12, "cores": 8},
            {"run": "TestC09_History", "checks": 6, "cores": 8},
        ],
        "thorough": [
            {"run": "TestC09_Notebook", "checks": 400, "shards": 4, "cores": 4, "timeout": 3000},
            {"run": "TestC09_History", "checks": 200, "shards": 4, "cores": 4, "timeout": 3000},
        ],
    },
    "C10": {
        "quick": [
            {"run": "TestC10_Totality", "checks": 4000},
            {"run": "TestC10_Missing|TestC10_Replay"},
            {"run": "FuzzC10_LoadSearch"},
        ],
        "thorough": [
            {"run": "TestC10_Totality", "checks": 100000, "shards": 16, "timeout": 3000},
            {"run": "TestC10_Missing|TestC10_Replay"},
            {"run": "FuzzC10_LoadSearch", "fuzz": "FuzzC10_LoadSearch", "fuzztime": "240s", "parallel": 16, "timeout": 900},
        ],
    },
    "C11": {
        "quick": [
            {"run": "TestC11_Programs", "checks": 150, "race": True},
            {"run": "TestC11_LRULinearizable", "checks": 1000, "race": True},
            {"run": "TestC11_FirstUse", "checks": 60, "race": True},
        ],
        "thorough": [
            {"run": "TestC11_Programs", "checks": 3000, "race": True, "shards": 8, "timeout": 3000},
            {"run": "TestC11_LRULinearizable", "checks": 20000, "race": True, "shards": 8, "timeout": 3000},
            {"run": "TestC11_FirstUse", "checks": 2000, "race": True, "shards": 4, "timeout": 3000},
        ],
    },
    "C12": {
        "quick": [
            {"run": "TestC12_Model", "checks": 4000},
            {"run": "TestC12_Timed", "checks": 120},
            {"run": "TestC12_SearchCache", "checks": 3000},
        ],
        "thorough": [
            {"run": "TestC12_Model", "checks": 200000, "shards": 12, "timeout": 3000},
            {"run": "TestC12_Timed", "checks": 2000, "shards": 4, "timeout": 3000},
            {"run": "TestC12_SearchCache", "checks": 100000, "shards": 2, "timeout": 3000},
        ],
    },
    "C13": {
        "quick": [
            {"run": "TestC13_Boosts", "checks": 5000},
            {"run": "TestC13_Analyzer", "checks": 1500},
        ],
        "thorough": [
            {"run": "TestC13_Boosts", "checks": 200000, "shards": 12, "timeout": 3000},
            {"run": "TestC13_Analyzer", "checks": 50000, "shards": 4, "timeout": 3000},
        ],
    },
    "C14": {
        "quick": [
            {"run": "TestC14_Query", "checks": 40000},
            {"run": "TestC14_Limit", "checks": 5000},
            {"run": "FuzzC14_ValidateQuery"},
        ],
        "thorough": [
            {"run": "TestC14_Query", "checks": 2000000, "shards": 14, "timeout": 3000},
            {"run": "TestC14_Limit", "checks": 200000, "shards": 2, "timeout": 3000},
            {"run": "FuzzC14_ValidateQuery", "fuzz": "FuzzC14_ValidateQuery", "fuzztime": "120s", "parallel": 16, "timeout": 900},
        ],
    },
    "C15": {
        "quick": [
            {"run": "TestC15_Matrix", "checks": 3},
            {"run": "TestC15_Transient", "checks": 400},
        ],
        "thorough": [
            {"run": "TestC15_Matrix", "checks": 208, "shards": 16, "timeout": 3000},
            {"run": "TestC15_Transient", "checks": 40000, "shards": 4, "timeout": 3000},
        ],
    },
    "C16": {
        "wtf": True,
        "quick": [
            {"run": "TestC16_CLIViews", "checks": 40},
            {"run": "TestC16_Log", "checks": 3000},
            {"run": "TestC16_File", "checks": 20000},
            {"run": "FuzzC16_HistoryFile"},
        ],
        "thorough": [
            {"run": "TestC16_Log", "checks": 150000, "shards": 10, "timeout": 3000},
            {"run": "TestC16_File", "checks": 1000000, "shards": 6, "timeout": 3000},
            {"run": "TestC16_CLIViews", "checks": 1500, "shards": 2, "timeout": 3000},
            {"run": "FuzzC16_HistoryFile", "fuzz": "FuzzC16_HistoryFile", "fuzztime": "120s", "parallel": 16, "timeout": 900},
        ],
    },
    "C17": {
        "wtf": True,
        "quick": [
            {"run": "TestC17_Search", "checks": 200},
            {"run": "TestC17_Subcommands", "checks": 900},
        ],
        "thorough": [
            {"run": "TestC17_Search", "checks": 6000, "shards": 10, "timeout": 3000},
            {"run": "TestC17_Subcommands", "checks": 12000, "shards": 6, "timeout": 3000},
        ],
    },
    "C18": {
        "quick": [
            {"run": "TestC18_Identity", "checks": 15000},
            {"run": "TestC18_Monitor", "checks": 5000},
            {"run": "TestC18_Concurrent", "checks": 150, "race": True},
        ],
        "thorough": [
            {"run": "TestC18_Identity", "checks": 800000, "shards": 10, "timeout": 3000},
            {"run": "TestC18_Monitor", "checks": 200000, "shards": 4, "timeout": 3000},
            {"run": "TestC18_Concurrent", "checks": 2000, "race": True, "shards": 2, "timeout": 3000},
        ],
    },
    "C19": {
        "quick": [
            {"run": "TestC19_Files", "checks": 75},
            {"run": "TestC19_Cosine", "checks": 20000},
            {"run": "TestC19_Search", "checks": 2000},
            {"run": "TestC19_Replay"},
            {"run": "FuzzC19_EmbeddingFiles"},
        ],
        "thorough": [
            {"run": "TestC19_Files", "checks": 5000, "shards": 8, "timeout": 3000},
            {"run": "TestC19_Cosine", "checks": 1000000, "shards": 4, "timeout": 3000},
            {"run": "TestC19_Search", "checks": 100000, "shards": 4, "timeout": 3000},
            {"run": "FuzzC19_EmbeddingFiles", "fuzz": "FuzzC19_EmbeddingFiles", "fuzztime": "180s", "parallel": 16, "timeout": 900},
        ],
    },
    "C20": {
        "wtf": True,
        "quick": [
            {"run": "TestC20_Engine", "checks": 6000},
            {"run": "TestC20_CLI", "checks": 60},
        ],
        "thorough": [
            {"run": "TestC20_Engine", "checks": 300000, "shards": 14, "timeout": 3000},
            {"run": "TestC20_CLI", "checks": 3000, "shards": 2, "timeout": 3000},
        ],
    },
}
