"""Per-property run plans for ./check.

Each entry: run = go test -run regex alternative(s) (joined by |), checks = rapid case
count, shards = number of processes with distinct PRNG values, race = use the -race
binary, timeout = seconds, env = extra environment knobs read by the test.
"""

LEVEL = {
    "C09": "fault_enumeration",
    "C15": "fault_enumeration",
}

ASSUMPTIONS = {
    "C12": [
        "time.Now() in the harness and in the cache read the same monotonic clock",
        "expiry is judged with interval logic, so outcomes inside the measurement uncertainty are accepted either way",
    ],
}

PLAN = {
    "C01": {
        "wtf": True,
        "quick": [
            {"run": "TestC01_SoughtNearTies", "checks": 150},
            {"run": "TestC01_Engine", "checks": 6000},
            {"run": "TestC01_Shipped", "checks": 150},
            {"run": "TestC01_CLI", "checks": 120},
        ],
        "thorough": [
            {"run": "TestC01_SoughtNearTies", "checks": 20000, "shards": 4, "timeout": 7200},
            {"run": "TestC01_Engine", "checks": 900000, "shards": 12, "timeout": 7200},
            {"run": "TestC01_Shipped", "checks": 6000, "shards": 2, "timeout": 7200},
            {"run": "TestC01_CLI", "checks": 9000, "shards": 2, "timeout": 7200},
        ],
    },
    "C02": {
        "wtf": True,
        "quick": [
            {"run": "TestC02_Repeat", "checks": 3000},
            {"run": "TestC02_Shipped", "checks": 40},
            {"run": "TestC02_Procs", "checks": 60},
            {"run": "TestC02_Huge", "checks": 5},
            {"run": "TestC02_ProcsBatch", "checks": 8},
        ],
        "thorough": [
            {"run": "TestC02_Repeat", "checks": 250000, "shards": 12, "timeout": 7200},
            {"run": "TestC02_Shipped", "checks": 1000, "shards": 2, "timeout": 7200},
            {"run": "TestC02_Procs", "checks": 1000, "shards": 2, "timeout": 7200},
            {"run": "TestC02_Huge", "checks": 150, "shards": 2, "timeout": 7200},
            {"run": "TestC02_ProcsBatch", "checks": 60, "shards": 2, "timeout": 7200},
        ],
    },
    "C03": {
        "quick": [
            {"run": "TestC03_Scan", "checks": 5000},
            {"run": "TestC03_Shipped", "checks": 60},
        ],
        "thorough": [
            {"run": "TestC03_Scan", "checks": 600000, "shards": 14, "timeout": 7200},
            {"run": "TestC03_Shipped", "checks": 3000, "shards": 2, "timeout": 7200},
        ],
    },
    "C04": {
        "wtf": True,
        "quick": [
            {"run": "TestC04_Filters", "checks": 6000},
            {"run": "TestC04_CLI", "checks": 300},
            {"run": "TestC04_Concurrent", "checks": 60, "cores": 8},
        ],
        "thorough": [
            {"run": "TestC04_Filters", "checks": 900000, "shards": 14, "timeout": 7200},
            {"run": "TestC04_CLI", "checks": 6000, "shards": 2, "timeout": 7200},
            {"run": "TestC04_Concurrent", "checks": 4000, "shards": 2, "cores": 8, "timeout": 7200},
        ],
    },
    "C05": {
        "quick": [
            {"run": "TestC05_Cache", "checks": 1500},
            {"run": "TestC05_Overflow", "checks": 4},
        ],
        "thorough": [
            {"run": "TestC05_Cache", "checks": 180000, "shards": 16, "timeout": 7200},
            {"run": "TestC05_Overflow", "checks": 200, "shards": 4, "timeout": 7200},
        ],
    },
    "C06": {
        "quick": [
            {"run": "TestC06_Retain", "checks": 5000},
            {"run": "TestC06_Analysis", "checks": 20000},
        ],
        "thorough": [
            {"run": "TestC06_Retain", "checks": 500000, "shards": 12, "timeout": 7200},
            {"run": "TestC06_Analysis", "checks": 2500000, "shards": 4, "timeout": 7200},
        ],
    },
    "C07": {
        "quick": [
            {"run": "TestC07_Fallback", "checks": 6000},
            {"run": "TestC07_Known"},
        ],
        "thorough": [
            {"run": "TestC07_Fallback", "checks": 900000, "shards": 15, "timeout": 7200},
            {"run": "TestC07_Known"},
        ],
    },
    "C08": {
        "wtf": True,
        "quick": [
            {"run": "TestC08_Save", "checks": 150},
        ],
        "thorough": [
            {"run": "TestC08_Save", "checks": 15000, "shards": 12, "timeout": 7200},
        ],
    },
    "C09": {
        "wtf": True,
        "quick": [
            {"run": "TestC09_SteppedLimit", "checks": 40},
            {"run": "TestC09_Notebook", "checks": 12, "cores": 8},
            {"run": "TestC09_History", "checks": 12, "cores": 8},
            {"run": "TestC09_CrashPoints", "checks": 30, "cores": 8},
        ],
        "thorough": [
            {"run": "TestC09_SteppedLimit", "checks": 1500, "shards": 4, "timeout": 7200},
            {"run": "TestC09_Notebook", "checks": 1000, "shards": 4, "cores": 4, "timeout": 7200},
            {"run": "TestC09_History", "checks": 500, "shards": 4, "cores": 4, "timeout": 7200},
            {"run": "TestC09_CrashPoints", "checks": 400, "shards": 4, "cores": 4, "timeout": 7200},
        ],
    },
    "C10": {
        "quick": [
            {"run": "TestC10_Totality", "checks": 4000},
            {"run": "TestC10_Paths", "checks": 500},
            {"run": "TestC10_Missing|TestC10_Replay"},
            {"run": "FuzzC10_LoadSearch"},
        ],
        "thorough": [
            {"run": "TestC10_Totality", "checks": 300000, "shards": 16, "timeout": 7200},
            {"run": "TestC10_Paths", "checks": 20000, "shards": 2, "timeout": 7200},
            {"run": "TestC10_Missing|TestC10_Replay"},
            {"run": "FuzzC10_LoadSearch", "fuzz": "FuzzC10_LoadSearch", "fuzztime": "480s", "parallel": 16, "timeout": 1500},
        ],
    },
    "C11": {
        "quick": [
            {"run": "TestC11_Programs", "checks": 150, "race": True},
            {"run": "TestC11_LRULinearizable", "checks": 1000, "race": True},
            {"run": "TestC11_FirstUse", "checks": 60, "race": True},
            {"run": "TestC11_OptionTwins", "checks": 150, "race": True},
            {"run": "TestC11_LRUBound", "checks": 40, "race": True, "cores": 8},
            {"run": "TestC11_SweepContention", "checks": 120, "race": True, "cores": 8},
        ],
        "thorough": [
            {"run": "TestC11_Programs", "checks": 7500, "race": True, "shards": 8, "timeout": 7200},
            {"run": "TestC11_LRULinearizable", "checks": 50000, "race": True, "shards": 8, "timeout": 7200},
            {"run": "TestC11_FirstUse", "checks": 5000, "race": True, "shards": 4, "timeout": 7200},
            {"run": "TestC11_OptionTwins", "checks": 8000, "race": True, "shards": 4, "timeout": 7200},
            {"run": "TestC11_LRUBound", "checks": 1500, "race": True, "shards": 2, "cores": 8, "timeout": 7200},
            {"run": "TestC11_SweepContention", "checks": 800, "race": True, "shards": 2, "cores": 8, "timeout": 7200},
        ],
    },
    "C12": {
        "quick": [
            {"run": "TestC12_Model", "checks": 4000},
            {"run": "TestC12_Timed", "checks": 120},
            {"run": "TestC12_SearchCache", "checks": 3000},
        ],
        "thorough": [
            {"run": "TestC12_Model", "checks": 600000, "shards": 12, "timeout": 7200},
            {"run": "TestC12_Timed", "checks": 6000, "shards": 4, "timeout": 7200},
            {"run": "TestC12_SearchCache", "checks": 300000, "shards": 2, "timeout": 7200},
        ],
    },
    "C13": {
        "quick": [
            {"run": "TestC13_Boosts", "checks": 5000},
            {"run": "TestC13_Analyzer", "checks": 1500},
        ],
        "thorough": [
            {"run": "TestC13_Boosts", "checks": 600000, "shards": 12, "timeout": 7200},
            {"run": "TestC13_Analyzer", "checks": 150000, "shards": 4, "timeout": 7200},
        ],
    },
    "C14": {
        "wtf": True,
        "quick": [
            {"run": "TestC14_Query", "checks": 40000},
            {"run": "TestC14_Limit", "checks": 5000},
            {"run": "FuzzC14_ValidateQuery"},
            {"run": "TestC14_CLI", "checks": 250},
        ],
        "thorough": [
            {"run": "TestC14_Query", "checks": 6000000, "shards": 14, "timeout": 7200},
            {"run": "TestC14_Limit", "checks": 600000, "shards": 2, "timeout": 7200},
            {"run": "FuzzC14_ValidateQuery", "fuzz": "FuzzC14_ValidateQuery", "fuzztime": "240s", "parallel": 16, "timeout": 1500},
            {"run": "TestC14_CLI", "checks": 12000, "shards": 4, "timeout": 7200},
        ],
    },
    "C15": {
        "quick": [
            {"run": "TestC15_Matrix", "checks": 3},
            {"run": "TestC15_Transient", "checks": 400},
            {"run": "TestC15_LongBudget", "checks": 150},
            {"run": "TestC15_Schedule", "checks": 4000},
        ],
        "thorough": [
            {"run": "TestC15_Matrix", "checks": 520, "shards": 16, "timeout": 7200},
            {"run": "TestC15_Transient", "checks": 100000, "shards": 4, "timeout": 7200},
            {"run": "TestC15_LongBudget", "checks": 20000, "shards": 4, "timeout": 7200},
            {"run": "TestC15_Schedule", "checks": 2000000, "shards": 4, "timeout": 7200},
        ],
    },
    "C16": {
        "wtf": True,
        "quick": [
            {"run": "TestC16_CLIViews", "checks": 40},
            {"run": "TestC16_Log", "checks": 3000},
            {"run": "TestC16_File", "checks": 20000},
            {"run": "FuzzC16_HistoryFile"},
        ],
        "thorough": [
            {"run": "TestC16_Log", "checks": 150000, "shards": 10, "timeout": 7200},
            {"run": "TestC16_File", "checks": 1000000, "shards": 6, "timeout": 7200},
            {"run": "TestC16_CLIViews", "checks": 1500, "shards": 2, "timeout": 7200},
            {"run": "FuzzC16_HistoryFile", "fuzz": "FuzzC16_HistoryFile", "fuzztime": "240s", "parallel": 16, "timeout": 1500},
        ],
    },
    "C17": {
        "wtf": True,
        "quick": [
            {"run": "TestC17_Search", "checks": 200},
            {"run": "TestC17_Subcommands", "checks": 900},
        ],
        "thorough": [
            {"run": "TestC17_Search", "checks": 12000, "shards": 10, "timeout": 7200},
            {"run": "TestC17_Subcommands", "checks": 24000, "shards": 6, "timeout": 7200},
        ],
    },
    "C18": {
        "quick": [
            {"run": "TestC18_Identity", "checks": 15000},
            {"run": "TestC18_Monitor", "checks": 5000},
            {"run": "TestC18_Concurrent", "checks": 150, "race": True},
            {"run": "TestC18_Wrapper", "checks": 400},
            {"run": "TestC18_Accessors", "checks": 3000},
        ],
        "thorough": [
            {"run": "TestC18_Identity", "checks": 2400000, "shards": 10, "timeout": 7200},
            {"run": "TestC18_Monitor", "checks": 600000, "shards": 4, "timeout": 7200},
            {"run": "TestC18_Concurrent", "checks": 6000, "race": True, "shards": 2, "timeout": 7200},
            {"run": "TestC18_Wrapper", "checks": 60000, "shards": 4, "timeout": 7200},
            {"run": "TestC18_Accessors", "checks": 400000, "shards": 8, "timeout": 7200},
        ],
    },
    "C19": {
        "quick": [
            {"run": "TestC19_Files", "checks": 75},
            {"run": "TestC19_Cosine", "checks": 20000},
            {"run": "TestC19_Search", "checks": 2000},
            {"run": "TestC19_LoadHistory", "checks": 300},
            {"run": "TestC19_Replay"},
            {"run": "FuzzC19_EmbeddingFiles"},
        ],
        "thorough": [
            {"run": "TestC19_Files", "checks": 15000, "shards": 8, "timeout": 7200},
            {"run": "TestC19_Cosine", "checks": 3000000, "shards": 4, "timeout": 7200},
            {"run": "TestC19_Search", "checks": 300000, "shards": 4, "timeout": 7200},
            {"run": "TestC19_LoadHistory", "checks": 30000, "shards": 4, "timeout": 7200},
            {"run": "FuzzC19_EmbeddingFiles", "fuzz": "FuzzC19_EmbeddingFiles", "fuzztime": "360s", "parallel": 16, "timeout": 1500},
        ],
    },
    "C20": {
        "wtf": True,
        "quick": [
            {"run": "TestC20_Engine", "checks": 6000},
            {"run": "TestC20_CLI", "checks": 200},
        ],
        "thorough": [
            {"run": "TestC20_Engine", "checks": 900000, "shards": 14, "timeout": 7200},
            {"run": "TestC20_CLI", "checks": 9000, "shards": 2, "timeout": 7200},
        ],
    },
}
