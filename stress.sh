#!/bin/bash
# Runs every quick check at several VERIF_SEED values, several at a time (loaded machine),
# and reports any run that does not exit 0.  usage: ./stress.sh "1 2 3" [parallel]
seeds=${1:-"1 2 3"}; par=${2:-4}
cd "$(dirname "$0")"; mkdir -p .work/stress
run() { s=$1; c=$2; VERIF_SEED=$s ./check $c > .work/stress/$c-s$s.log 2>&1; echo "$c seed=$s rc=$? $(tail -1 .work/stress/$c-s$s.log | cut -c1-150)"; }
export -f run
for s in $seeds; do for i in 01 02 03 04 05 06 07 08 09 10 11 12 13 14 15 16 17 18 19 20; do echo "$s C$i"; done; done | xargs -P $par -L1 bash -c 'run $0 $1'
