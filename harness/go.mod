module github.com/Vedant9500/WTF/verifharness

go 1.25.5

require (
	github.com/Vedant9500/WTF v0.0.0
	github.com/anishathalye/porcupine v1.3.0
	github.com/sahilm/fuzzy v0.1.1
	gopkg.in/yaml.v3 v3.0.1
	pgregory.net/rapid v1.3.0
)

replace github.com/Vedant9500/WTF => /repo
