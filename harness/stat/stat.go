// Package stat is the evidence recorder used by every property test.
//
// Each generated case calls Recorder.Case once. The recorder counts evaluations, keeps a
// set of 64-bit hashes of the canonical rendering of the non-trivial cases (so
// distinct_nontrivial is measured, and shards can be merged by the driver), a label
// histogram, exclusion counters for known findings, and a deterministic sample of
// cases (the first three plus the five with the smallest hash).
//
// Flush writes everything to the file named by $VERIF_STATS (JSON, one object per
// property id) and the hash sets to $VERIF_STATS + ".hashes".
package stat

import (
	"crypto/sha256"
	"encoding/binary"
	"encoding/json"
	"fmt"
	"os"
	"sort"
	"sync"
)

const maxSampleBytes = 3000

type sample struct {
	hash uint64
	text json.RawMessage
}

// Gate is a generator-health requirement: label share among evaluations must be >= Min.
type Gate struct {
	Label string  `json:"label"`
	Min   float64 `json:"min"`
	Share float64 `json:"share"`
	OK    bool    `json:"ok"`
}

// Recorder accumulates evidence for one property.
type Recorder struct {
	mu          sync.Mutex
	id          string
	evaluations int
	nontrivial  int
	labels      map[string]int
	excluded    map[string]int
	distinct    map[uint64]struct{}
	first       []sample
	smallest    []sample
	gates       map[string]float64
	extra       map[string]any
	rule        string
}

var (
	regMu sync.Mutex
	reg   = map[string]*Recorder{}
)

// For returns the recorder of property id (created on first use).
func For(id string) *Recorder {
	regMu.Lock()
	defer regMu.Unlock()
	r, ok := reg[id]
	if !ok {
		r = &Recorder{id: id, labels: map[string]int{}, excluded: map[string]int{},
			distinct: map[uint64]struct{}{}, gates: map[string]float64{}, extra: map[string]any{}}
		reg[id] = r
	}
	return r
}

// Rule states how cases are generated and what makes one non-trivial.
func (r *Recorder) Rule(s string) {
	r.mu.Lock()
	if r.rule == "" {
		r.rule = s
	} else if r.rule != s && len(r.rule) < 4000 {
		// several sub-checks of one property: concatenate distinct rules
		if !contains(r.rule, s) {
			r.rule += " || " + s
		}
	}
	r.mu.Unlock()
}

func contains(a, b string) bool {
	for i := 0; i+len(b) <= len(a); i++ {
		if a[i:i+len(b)] == b {
			return true
		}
	}
	return false
}

// RequireShare declares a generator-health gate.
func (r *Recorder) RequireShare(label string, min float64) {
	r.mu.Lock()
	r.gates[label] = min
	r.mu.Unlock()
}

// Case records one generated case. sample is rendered with encoding/json and is what
// the distinctness hash is computed from.
func (r *Recorder) Case(nontrivial bool, sampleObj any, labels ...string) {
	raw, err := json.Marshal(sampleObj)
	if err != nil {
		raw, _ = json.Marshal(fmt.Sprintf("%+v", sampleObj))
	}
	sum := sha256.Sum256(raw)
	h := binary.BigEndian.Uint64(sum[:8])
	if len(raw) > maxSampleBytes {
		raw, _ = json.Marshal(string(raw[:maxSampleBytes]) + "...(truncated)")
	}
	r.mu.Lock()
	defer r.mu.Unlock()
	r.evaluations++
	for _, l := range labels {
		if l != "" {
			r.labels[l]++
		}
	}
	if !nontrivial {
		r.labels["trivial"]++
		return
	}
	r.nontrivial++
	if _, seen := r.distinct[h]; seen {
		return
	}
	r.distinct[h] = struct{}{}
	s := sample{h, raw}
	if len(r.first) < 3 {
		r.first = append(r.first, s)
		return
	}
	if len(r.smallest) < 5 {
		r.smallest = append(r.smallest, s)
		sort.Slice(r.smallest, func(i, j int) bool { return r.smallest[i].hash < r.smallest[j].hash })
	} else if h < r.smallest[4].hash {
		r.smallest[4] = s
		sort.Slice(r.smallest, func(i, j int) bool { return r.smallest[i].hash < r.smallest[j].hash })
	}
}

// Label bumps a label counter without recording a case.
func (r *Recorder) Label(labels ...string) {
	r.mu.Lock()
	for _, l := range labels {
		r.labels[l]++
	}
	r.mu.Unlock()
}

// Excluded counts one generated case (or region hit) skipped because it matches a known finding.
func (r *Recorder) Excluded(signature string) {
	r.mu.Lock()
	r.excluded[signature]++
	r.mu.Unlock()
}

// Set stores an extra coverage key (e.g. exhaustive: true).
func (r *Recorder) Set(key string, v any) {
	r.mu.Lock()
	r.extra[key] = v
	r.mu.Unlock()
}

// Add adds to an integer extra key.
func (r *Recorder) Add(key string, n int) {
	r.mu.Lock()
	cur, _ := r.extra[key].(int)
	r.extra[key] = cur + n
	r.mu.Unlock()
}

type out struct {
	Evaluations int               `json:"evaluations"`
	Nontrivial  int               `json:"nontrivial"`
	Distinct    int               `json:"distinct_nontrivial"`
	Rule        string            `json:"rule"`
	Labels      map[string]int    `json:"labels"`
	Excluded    map[string]int    `json:"excluded_known"`
	Samples     []json.RawMessage `json:"samples"`
	Gates       []Gate            `json:"gates"`
	Extra       map[string]any    `json:"extra"`
}

// Flush writes all recorders to $VERIF_STATS. It is called from TestMain.
func Flush() {
	path := os.Getenv("VERIF_STATS")
	if path == "" {
		return
	}
	for _, a := range os.Args {
		if len(a) >= 16 && a[:16] == "-test.fuzzworker" {
			return // native fuzz worker processes must not overwrite the coordinator's file
		}
	}
	regMu.Lock()
	defer regMu.Unlock()
	all := map[string]out{}
	hashes := map[string][]string{}
	for id, r := range reg {
		r.mu.Lock()
		o := out{Evaluations: r.evaluations, Nontrivial: r.nontrivial, Distinct: len(r.distinct), Rule: r.rule,
			Labels: r.labels, Excluded: r.excluded, Extra: r.extra}
		for _, s := range r.first {
			o.Samples = append(o.Samples, s.text)
		}
		for _, s := range r.smallest {
			o.Samples = append(o.Samples, s.text)
		}
		names := make([]string, 0, len(r.gates))
		for l := range r.gates {
			names = append(names, l)
		}
		sort.Strings(names)
		for _, l := range names {
			share := 0.0
			if r.evaluations > 0 {
				share = float64(r.labels[l]) / float64(r.evaluations)
			}
			o.Gates = append(o.Gates, Gate{Label: l, Min: r.gates[l], Share: share, OK: share >= r.gates[l]})
		}
		hs := make([]string, 0, len(r.distinct))
		for h := range r.distinct {
			hs = append(hs, fmt.Sprintf("%016x", h))
		}
		sort.Strings(hs)
		hashes[id] = hs
		all[id] = o
		r.mu.Unlock()
	}
	data, _ := json.MarshalIndent(all, "", " ")
	_ = os.WriteFile(path, data, 0o644)
	hd, _ := json.Marshal(hashes)
	_ = os.WriteFile(path+".hashes", hd, 0o644)
}
