package props

import (
	"fmt"
	"math"
	"os"
	"path/filepath"
	"runtime"
	"strings"
	"sync"
	"testing"

	"github.com/Vedant9500/WTF/internal/database"
	"github.com/Vedant9500/WTF/verifharness/gen"
	"github.com/Vedant9500/WTF/verifharness/proc"
	"github.com/Vedant9500/WTF/verifharness/ref"
	"github.com/Vedant9500/WTF/verifharness/stat"
	"pgregory.net/rapid"
)

// C04 — platform and pipeline filters hold for every result on every path.

var c04FirstWords = []string{"git", "docker", "tar", "curl", "npm", "grep", "apt", "ipconfig", "systemctl", "dir", "brew", "GIT", "Get-Process",
	// near misses: a recognised tool name is only a prefix / suffix / part of the first word
	"gitk", "lsof", "findstr", "gofmt", "nodejs", "sshd", "git-lfs", "tarball", "rmdir", "azcopy", "catdoc", "xgit", "kubectl", "az", "7z", "Docker"}

// Tools named as cross-platform in the code's own table (a subset, as of the pinned commit) and
// first words that are certainly none. c04IsTool decides these itself - a command is a
// recognised tool when its first blank-delimited word IS a tool name, whatever the letter case -
// and asks the code only about first words outside both lists, so that a loosened matching
// rule (prefix instead of word) is not mirrored by the oracle.
var c04Tools = map[string]bool{"git": true, "docker": true, "tar": true, "curl": true, "npm": true, "grep": true, "kubectl": true, "az": true, "7z": true, "ls": true, "cat": true, "find": true, "sed": true, "awk": true, "go": true, "cp": true, "mv": true, "rm": true, "ssh": true, "node": true}
var c04NonTools = map[string]bool{"apt": true, "ipconfig": true, "systemctl": true, "dir": true, "brew": true, "get-process": true, "gitk": true, "lsof": true, "findstr": true, "gofmt": true, "nodejs": true,
	"sshd": true, "git-lfs": true, "tarball": true, "rmdir": true, "azcopy": true, "catdoc": true, "xgit": true, "mkdir": true, "chmod": true, "ps": true, "df": true, "du": true, "list": true, "show": true, "files": true, "file": true}

func c04IsTool(command string) bool {
	lower := strings.ToLower(command)
	first := lower
	if i := strings.IndexByte(lower, ' '); i >= 0 {
		first = lower[:i]
	}
	switch {
	case c04Tools[first]:
		return true
	case c04NonTools[first]:
		return false
	}
	// a known tool name separated from the rest by anything but one plain blank, or preceded by
	// white space, is not "the command starts with the tool" (pinned rule: tool + " ", or the bare tool)
	if f := strings.Fields(lower); len(f) > 0 && c04Tools[f[0]] {
		return false
	}
	for tool := range c04Tools {
		if strings.HasPrefix(lower, tool) && len(lower) > len(tool) && !isWordByte(lower[len(tool)]) && lower[len(tool)] != ' ' {
			return false // "git,status", "ls\npwd"
		}
	}
	return database.VerifIsCrossPlatformTool(command)
}

// c04Cmd draws an entry whose command often starts with a (non-)cross-platform tool name.
func c04Cmd() *rapid.Generator[database.Command] {
	base := gen.Command(gen.CmdOpts{Platforms: true})
	return rapid.Custom(func(t *rapid.T) database.Command {
		c := base.Draw(t, "c")
		if rapid.Bool().Draw(t, "tool-prefix") {
			c.Command = rapid.SampledFrom(c04FirstWords).Draw(t, "first") + " " + c.Command
		} else if rapid.IntRange(0, 5).Draw(t, "tool-odd-blank") == 0 {
			// a tool name that is not followed by a plain blank, or not at the very start
			tool := rapid.SampledFrom([]string{"git", "curl", "ls", "docker", "rsync", "tar"}).Draw(t, "odd-tool")
			c.Command = rapid.SampledFrom([]string{tool + "\t" + c.Command, tool + "\n" + c.Command, " " + tool + " " + c.Command, tool + "\u00a0" + c.Command, "\t" + tool + " " + c.Command, tool + "," + c.Command}).Draw(t, "odd-shape")
		}
		return c
	})
}

// c04Host names the host operating system independently of the code under test.
func c04Host() string {
	if runtime.GOOS == "darwin" {
		return "macos"
	}
	return runtime.GOOS
}

func c04Anchors(t *rapid.T) {
	if got := database.VerifHostPlatform(); ref.CanonPlatform(got) != ref.CanonPlatform(c04Host()) {
		t.Fatalf("the platform in force for the host is %q on %s", got, runtime.GOOS)
	}
	for cmd, want := range map[string]bool{"git status": true, "ipconfig /all": false, "systemctl start x": false, "tar -xzf a.tgz": true, "gitk --all": false, "GIT status": true, "git": true, "findstr x": false, "xgit y": false} {
		if got := database.VerifIsCrossPlatformTool(cmd); got != want {
			t.Fatalf("cross-platform tool rule: %q recognised=%v, documented expectation %v", cmd, got, want)
		}
	}
}

func c04Violation(c *database.Command, opt database.SearchOptions) string {
	if ref.PlatformViolation(c, opt, c04Host(), c04IsTool) {
		return "platform"
	}
	if opt.PipelineOnly && !ref.IsPipeline(c) {
		return "pipeline"
	}
	return ""
}

func TestC04_Filters(t *testing.T) {
	rec := stat.For("C04")
	rec.Rule("databases with arbitrary platform tags (none/one/several, aliases, mixed case) whose commands start with recognised tools or non-tools, pipeline and plain entries; queries incl. typos and fragments answered only by the fallback; all settings of AllPlatforms / Platforms / NoCrossPlatform / PipelineOnly; paths SearchUniversal (lexical, NLP, fallback), cached second call, monitored, legacy pipeline search (pipeline rule only), built binary. Oracle: one-directional eligibility predicate on every result. Non-trivial = the database holds an entry that is ineligible under the options and matches the query lexically or as a subsequence.")
	rec.RequireShare("fuzzy-path", 0.12)
	rec.RequireShare("platforms-set", 0.30)
	rec.RequireShare("no-cross", 0.20)
	rapid.Check(t, func(t *rapid.T) {
		c04Anchors(t)
		cmds := rapid.SliceOfN(c04Cmd(), 1, 16).Draw(t, "cmds")
		db := gen.Load(t, cmds)
		q, qc := gen.Query(t, cmds, []gen.QueryClass{"vocab", "vocab", "nlp", "typo", "typo", "fragment", "fragment", "one", "mixed"})
		opt := gen.Options(t, gen.OptSpec{N: len(cmds), NoNegLimit: true})
		unencodable := false
		if rapid.IntRange(0, 3).Draw(t, "unencodable-boost") == 0 {
			// a boost that is not a finite number (the engine ignores NaN and non-positive factors):
			// the caching layers cannot render such a request as JSON and key it another way
			unencodable = true
			v := rapid.SampledFrom([]float64{math.NaN(), math.Inf(-1)}).Draw(t, "non-finite")
			if rapid.Bool().Draw(t, "non-finite-pipeline-boost") {
				opt.PipelineBoost = v
			} else {
				cb := map[string]float64{}
				for k, x := range opt.ContextBoosts {
					cb[k] = x
				}
				cb[rapid.SampledFrom(gen.Vocab).Draw(t, "non-finite-key")] = v
				opt.ContextBoosts = cb
			}
		}
		warmed := warmUp(t, db, cmds, q, opt)
		path := rapid.SampledFrom([]string{"universal", "universal", "cached", "cached-delta", "cached-delta", "monitored", "legacy-pipeline", "cached-switch"}).Draw(t, "path")
		if unencodable && rapid.Bool().Draw(t, "non-finite-on-cached-path") {
			path = "cached-delta"
		}
		fullList := false
		if rapid.IntRange(0, 11).Draw(t, "every-platform-named") == 0 {
			// every major platform named in the list (any order, case, repeats) is still a LIST: an entry
			// declared for some other system only stays out - also when the all-platforms answer to the
			// same query was given a moment ago
			fullList = true
			src := cmds[rapid.IntRange(0, len(cmds)-1).Draw(t, "foreign-copy-of")]
			src.Command = rapid.SampledFrom([]string{"systemctl", "ipconfig", "findstr"}).Draw(t, "foreign-first") + " " + src.Command
			src.Platform = rapid.SampledFrom([][]string{{"freebsd"}, {"solaris"}, {"plan9", "freebsd"}, {"FreeBSD"}}).Draw(t, "foreign-tags")
			src.Tags = nil
			cmds = append(append([]database.Command{}, cmds...), src)
			db = gen.Load(t, cmds)
			if toks := gen.Tokens([]database.Command{src}); len(toks) > 0 {
				q, qc = rapid.SampledFrom(toks).Draw(t, "foreign-word"), "foreign-entry-word"
			}
			opt.AllPlatforms, opt.NoCrossPlatform, opt.PipelineOnly = false, false, false
			opt.Platforms = rapid.SampledFrom([][]string{{"linux", "macos", "windows"}, {"windows", "linux", "macos", "linux"}, {"Linux", "MacOS", "Windows"}, {"macos", "windows", "linux"}}).Draw(t, "full-list")
			if rapid.IntRange(0, 3).Draw(t, "full-list-cached") != 0 {
				path = "cached-delta"
			}
		}
		var res []database.SearchResult
		switch path {
		case "universal":
			res = db.SearchUniversal(q, opt)
		case "cached":
			c := database.NewCachedDatabase(db)
			c.SearchWithOptionsAndCache(q, opt)
			res = c.SearchWithOptionsAndCache(q, opt)
		case "cached-delta":
			// warm the cache with the same query under other filter settings first
			c := database.NewMonitoredDatabase(db)
			if unencodable || fullList || rapid.Bool().Draw(t, "all-toggles-first") {
				// every one-field toggle of the filter settings is asked first
				for f := 0; f < 4; f++ {
					w := opt
					switch f {
					case 0:
						w.AllPlatforms = !w.AllPlatforms
					case 1:
						w.NoCrossPlatform = !w.NoCrossPlatform
					case 2:
						w.PipelineOnly = !w.PipelineOnly
					case 3:
						if len(w.Platforms) > 0 {
							w.Platforms = nil
						} else {
							w.Platforms = []string{"windows", "macos", "linux"}
						}
					}
					c.SearchWithOptionsAndCache(q, w)
				}
			}
			for i := rapid.IntRange(1, 3).Draw(t, "warmups"); i > 0; i-- {
				w := opt
				if rapid.Bool().Draw(t, "w-one-field") {
					// the request under test but for ONE filter setting
					switch rapid.IntRange(0, 3).Draw(t, "w-field") {
					case 0:
						w.AllPlatforms = !w.AllPlatforms
					case 1:
						w.NoCrossPlatform = !w.NoCrossPlatform
					case 2:
						w.PipelineOnly = !w.PipelineOnly
					case 3:
						if len(w.Platforms) > 0 {
							w.Platforms = nil
						} else {
							w.Platforms = rapid.SliceOfN(rapid.SampledFrom([]string{"linux", "windows", "macos", "darwin"}), 1, 2).Draw(t, "w-pl1")
						}
					}
				} else {
					w.AllPlatforms = rapid.Bool().Draw(t, "w-all")
					w.NoCrossPlatform = rapid.Bool().Draw(t, "w-nocross")
					w.PipelineOnly = rapid.Bool().Draw(t, "w-ponly")
					if rapid.Bool().Draw(t, "w-platforms") {
						w.Platforms = rapid.SliceOfN(rapid.SampledFrom([]string{"linux", "windows", "macos", "darwin"}), 0, 2).Draw(t, "w-pl")
					}
				}
				if rapid.Bool().Draw(t, "w-monitored") {
					c.SearchWithOptionsAndMonitoring(q, w)
				} else {
					c.SearchWithOptionsAndCache(q, w)
				}
			}
			res = c.SearchWithOptionsAndCache(q, opt)
		case "cached-switch":
			// an answer is cached, the cache is switched off, entries change their platform tags and
			// pipeline flags IN PLACE and are published again, the cache is switched back on
			c := database.NewCachedDatabase(db)
			c.SearchWithOptionsAndCache(q, opt)
			if rapid.Bool().Draw(t, "switch-off") {
				c.EnableCache(false)
			}
			for i := range db.Commands {
				if rapid.Bool().Draw(t, "retag") {
					db.Commands[i].Platform = gen.PlatformList().Draw(t, "new-platform")
					db.Commands[i].Pipeline = rapid.Bool().Draw(t, "new-pipeline")
				}
			}
			c.UpdateDatabase(db.Commands)
			c.EnableCache(true)
			res = c.SearchWithOptionsAndCache(q, opt)
		case "monitored":
			m := database.NewMonitoredDatabase(db)
			m.SearchWithOptionsAndMonitoring(q, opt)
			res = m.SearchWithOptionsAndMonitoring(q, opt)
		case "legacy-pipeline":
			res = db.SearchWithPipelineOptions(q, opt)
		}
		for _, r := range res {
			if path == "legacy-pipeline" {
				if opt.PipelineOnly && !ref.IsPipeline(r.Command) {
					t.Fatalf("legacy pipeline search returned non-pipeline %q under pipeline-only; query=%q", r.Command.Command, q)
				}
				continue
			}
			if v := c04Violation(r.Command, opt); v != "" {
				t.Fatalf("%s filter breached on path %s: returned %q platforms=%v pipeline=%v under options %v (host %s); query=%q\n db=%v",
					v, path, r.Command.Command, r.Command.Platform, r.Command.Pipeline, optBrief(opt), database.VerifHostPlatform(), q, gen.BriefDB(cmds, 16))
			}
		}
		labels := []string{"path:" + path, "q:" + string(qc)}
		if warmed > 0 {
			labels = append(labels, "warmed-database")
		}
		if unencodable {
			labels = append(labels, "non-finite-boost")
		}
		if fullList {
			labels = append(labels, "every-platform-named")
		}
		off := opt
		off.UseFuzzy = false
		if path != "legacy-pipeline" && opt.UseFuzzy && len(db.SearchUniversal(q, off)) == 0 {
			labels = append(labels, "fuzzy-path")
		}
		if len(opt.Platforms) > 0 {
			labels = append(labels, "platforms-set")
		}
		if opt.NoCrossPlatform {
			labels = append(labels, "no-cross")
		}
		if opt.AllPlatforms {
			labels = append(labels, "all-platforms")
		}
		if opt.PipelineOnly {
			labels = append(labels, "pipeline-only")
		}
		// non-trivial: an ineligible entry matches the query
		terms := ref.Tokenize(q)
		docs := ref.Index(cmds)
		nontrivial := false
		for i := range cmds {
			if c04Violation(&cmds[i], opt) == "" {
				continue
			}
			match := ref.FoldSubsequence(q, cmds[i].Command+" "+cmds[i].Description)
			for _, term := range terms {
				if docs[i].Has(term) {
					match = true
				}
			}
			if match {
				nontrivial = true
			}
		}
		rec.Case(nontrivial, map[string]any{"path": path, "db": gen.BriefDB(cmds, 8), "query": q, "options": optBrief(opt), "results": len(res)}, labels...)
	})
}

func TestC04_CLI(t *testing.T) {
	needWtf(t)
	rec := stat.For("C04")
	rapid.Check(t, func(t *rapid.T) {
		cmds := rapid.SliceOfN(c04Cmd(), 2, 14).Draw(t, "cmds")
		dir := mkdirWork("c04cli-")
		defer os.RemoveAll(dir)
		h, _ := proc.NewHome(dir)
		dbp := filepath.Join(dir, "db.yml")
		os.WriteFile(dbp, gen.EmitYAML(cmds), 0o644)
		toks := gen.Tokens(cmds)
		if len(toks) == 0 {
			toks = []string{"alpha"}
		}
		var q string
		if rapid.Bool().Draw(t, "typo") {
			q = gen.Typo(t, rapid.SampledFrom(toks).Draw(t, "w"))
		} else {
			q = gen.TextOf(rapid.SampledFrom(toks), 1, 2).Draw(t, "q")
		}
		q = strings.Join(strings.Fields(strings.Map(func(r rune) rune {
			if r < 0x20 || r > 0x7e || strings.ContainsRune("<>|&;$", r) {
				return ' '
			}
			return r
		}, q)), " ")
		if q == "" {
			q = "alpha"
		}
		var opt database.SearchOptions
		args := []string{"--no-color", "-d", dbp, "--format", "json", "-v", "--limit", "100"}
		for _, p := range rapid.SliceOfN(rapid.SampledFrom([]string{"linux", "windows", "macos", "Windows", "darwin", "cross-platform", "freebsd", "macos,", "w", "lin", ",linux"}), 0, 2).Draw(t, "platforms") {
			args = append(args, "--platform", p)
			if strings.Contains(p, ",") { // pflag splits on commas: "macos," means [macos ""]
				opt.Platforms = append(opt.Platforms, strings.Split(p, ",")...)
				continue
			}
			opt.Platforms = append(opt.Platforms, p)
		}
		if rapid.IntRange(0, 2).Draw(t, "nocross") == 0 {
			args = append(args, "--no-cross-platform")
			opt.NoCrossPlatform = true
		}
		if rapid.IntRange(0, 4).Draw(t, "all") == 0 {
			args = append(args, "--all-platforms")
			opt.AllPlatforms = true
		}
		args = append(args, "--", q)
		// the platforms in force are the ones asked for, otherwise the host operating system - whatever else
		// the process environment holds (a WSL session's variables, locale, terminal, unknown WTF_* settings)
		var henv []string
		if rapid.Bool().Draw(t, "odd-environment") {
			henv = gen.HostileEnv(t, fmt.Sprint(len(cmds)))
		}
		r := runWtf(h, dir, args, henv...)
		if r.Panicked() || r.TimedOut {
			t.Fatalf("wtf crashed: %+v", r)
		}
		labels := []string{"cli"}
		if henv != nil {
			labels = append(labels, "cli-odd-environment")
		}
		if strings.Contains(r.Stdout, "Warning: Search had issues") {
			// last-resort recovery search: not one of the paths the statement lists
			rec.Case(false, map[string]any{"argv": args, "skipped": "recovery path"}, "cli", "cli-recovery-skipped")
			return
		}
		var items []cliItem
		if strings.Contains(r.Stdout, "\n[") {
			var err error
			if items, err = parseJSONBlock(r.Stdout); err != nil {
				t.Fatalf("wtf %q: %v\n%s", args, err, r.Stdout)
			}
		}
		for _, it := range items {
			c := database.Command{Command: it.Command, Platform: it.Platforms}
			if ref.PlatformViolation(&c, opt, c04Host(), c04IsTool) {
				t.Fatalf("wtf %q (extra environment %q) printed %q platforms=%v, not eligible under the flags\n db=%v", args, henv, it.Command, it.Platforms, gen.BriefDB(cmds, 14))
			}
		}
		nontrivial := false
		for i := range cmds {
			if ref.PlatformViolation(&cmds[i], opt, c04Host(), c04IsTool) && ref.FoldSubsequence(q, cmds[i].Command+" "+cmds[i].Description) {
				nontrivial = true
			}
		}
		if len(opt.Platforms) > 0 {
			labels = append(labels, "cli-platform-flag")
		}
		rec.Case(nontrivial, map[string]any{"argv": args[2:], "db": gen.BriefDB(cmds, 6), "printed": len(items)}, labels...)
	})
}

// TestC04_Concurrent: searches under different filter settings overlapping on one database -
// the filter in force for a search is its own, whatever other searches run at the same time.
func TestC04_Concurrent(t *testing.T) {
	rec := stat.For("C04")
	rec.Rule("concurrent use: 2-8 goroutines search one database (direct, cached, monitored) at the same time, each under its own platform / pipeline settings, 40 searches each. Oracle: the one-directional eligibility predicate on every result, judged by the options of the search that returned it.")
	rapid.Check(t, func(t *rapid.T) {
		cmds := gen.Bulk(t, rapid.IntRange(40, 300).Draw(t, "n"), gen.CmdOpts{Platforms: true})
		for i := range cmds {
			if i%3 == 0 {
				cmds[i].Command = c04FirstWords[i%len(c04FirstWords)] + " " + cmds[i].Command
			}
		}
		db := gen.Load(t, cmds)
		mdb := database.NewMonitoredDatabase(db)
		toks := gen.Tokens(cmds)
		g := rapid.IntRange(2, 8).Draw(t, "goroutines")
		opts := make([]database.SearchOptions, g)
		qs := make([]string, g)
		for i := range opts {
			opts[i] = gen.Options(t, gen.OptSpec{N: len(cmds), NoNegLimit: true, NoBoosts: true})
			opts[i].Limit = len(cmds)
			qs[i] = rapid.SampledFrom(toks).Draw(t, "q")
		}
		var wg sync.WaitGroup
		var mu sync.Mutex
		var bad []string
		for i := 0; i < g; i++ {
			wg.Add(1)
			go func(i int) {
				defer wg.Done()
				for rep := 0; rep < 40; rep++ {
					var res []database.SearchResult
					switch (i + rep) % 3 {
					case 0:
						res = db.SearchUniversal(qs[i], opts[i])
					case 1:
						res = mdb.SearchWithOptionsAndCache(qs[i], opts[i])
					default:
						res = mdb.SearchWithOptionsAndMonitoring(qs[i], opts[i])
					}
					for _, r := range res {
						if v := c04Violation(r.Command, opts[i]); v != "" {
							mu.Lock()
							bad = append(bad, fmt.Sprintf("%s filter breached for goroutine %d: %q platforms=%v pipeline=%v returned under %v", v, i, r.Command.Command, r.Command.Platform, r.Command.Pipeline, optBrief(opts[i])))
							mu.Unlock()
							return
						}
					}
				}
			}(i)
		}
		wg.Wait()
		if len(bad) > 0 {
			t.Fatalf("%s\n (host %s; %d goroutines with different filter settings on one database)", strings.Join(bad, "\n"), c04Host(), g)
		}
		rec.Case(true, map[string]any{"concurrent": true, "goroutines": g, "db_size": len(cmds)}, "concurrent-filters")
	})
}

func isWordByte(b byte) bool {
	return b >= 'a' && b <= 'z' || b >= '0' && b <= '9' || b == '-' || b == '_' || b >= 0x80
}
