package props

import (
	"math"
	"os"
	"path/filepath"
	"strings"
	"testing"
	"unicode"
	"unicode/utf8"

	"github.com/Vedant9500/WTF/internal/validation"
	"github.com/Vedant9500/WTF/verifharness/gen"
	"github.com/Vedant9500/WTF/verifharness/proc"
	"github.com/Vedant9500/WTF/verifharness/stat"
	"pgregory.net/rapid"
)

// C14 — accepted queries are clean, and validation is stable and decisive.

// c14Accept is the independent acceptor derived from the property statement. It returns
// whether the query must be accepted, and whether the statement leaves that open.
//
// "Not blank once control characters are removed": removing a control character from
// between invalid UTF-8 bytes can make those bytes combine into a new control character
// ("\xc2\x00\x80" -> U+0080), and an accepted query must come back without any, so
// removal is taken to its fixed point. Characters that are both control and whitespace
// (tab, newline, CR, VT, FF, NEL) may be read either as removed or as separators; where
// the two readings disagree (only around invalid bytes) either answer is allowed.
func c14Accept(q string) (accept, open bool) {
	if len(q) > 1000 {
		return false, false
	}
	if strings.ContainsAny(q, "<>|&;$") {
		return false, false
	}
	a := c14NonBlank(q, true)
	b := c14NonBlank(q, false)
	return a, a != b
}

func c14NonBlank(q string, spaceControlsSeparate bool) bool {
	for {
		next := c14DropControls(q, spaceControlsSeparate)
		if next == q {
			break
		}
		q = next
	}
	for _, r := range q { // invalid bytes decode as U+FFFD: neither control nor space
		if !unicode.IsControl(r) && !unicode.IsSpace(r) {
			return true
		}
	}
	return false
}

// c14DropControls removes control runes (or turns the whitespace ones into blanks);
// invalid bytes are kept as they are.
func c14DropControls(s string, spaceControlsSeparate bool) string {
	out := make([]byte, 0, len(s))
	for i := 0; i < len(s); {
		r, n := utf8.DecodeRuneInString(s[i:])
		switch {
		case !unicode.IsControl(r):
			out = append(out, s[i:i+n]...)
		case spaceControlsSeparate && unicode.IsSpace(r):
			out = append(out, ' ')
		}
		i += n
	}
	return string(out)
}

// c14Check applies the whole oracle to one input; returns "" when it holds.
func c14Check(q string) (msg string, accepted bool, out string) {
	o, err := validation.ValidateQuery(q)
	want, open := c14Accept(q)
	if !open && (err == nil) != want {
		return "acceptance differs from the stated rule: accepted=" + boolStr(err == nil) + " rule says " + boolStr(want), err == nil, o
	}
	if err != nil {
		if o != "" {
			return "rejected query came back with a non-empty result", false, o
		}
		return "", false, ""
	}
	prevSpace := true // leading space not allowed
	for i, r := range o {
		if unicode.IsControl(r) {
			return "accepted query still contains a control character", true, o
		}
		if unicode.IsSpace(r) {
			if r != ' ' {
				return "accepted query contains whitespace other than a plain blank", true, o
			}
			if prevSpace {
				if i == 0 {
					return "accepted query has leading whitespace", true, o
				}
				return "accepted query has repeated whitespace", true, o
			}
			prevSpace = true
		} else {
			prevSpace = false
		}
	}
	if o == "" {
		return "accepted query came back empty", true, o
	}
	if prevSpace {
		return "accepted query has trailing whitespace", true, o
	}
	if strings.ContainsAny(o, "<>|&;$") {
		return "accepted query contains a shell metacharacter", true, o
	}
	if utf8.RuneCountInString(o) > utf8.RuneCountInString(q) {
		return "accepted query has more characters than the input", true, o
	}
	o2, err2 := validation.ValidateQuery(o)
	if err2 != nil {
		return "validating an already validated query fails: " + err2.Error()[:min(60, len(err2.Error()))], true, o
	}
	if o2 != o {
		return "validating an already validated query changes it", true, o
	}
	return "", true, o
}

func boolStr(b bool) string {
	if b {
		return "true"
	}
	return "false"
}

var c14Spaces = []rune{' ', '\t', '\n', '\v', '\f', '\r', 0x85, 0xA0, 0x1680, 0x2000, 0x2003, 0x200A, 0x2028, 0x2029, 0x202F, 0x205F, 0x3000}
var c14Controls = []rune{0, 1, 7, 8, 0x1b, 0x1f, 0x7f, 0x80, 0x8e, 0x9f}
var c14NotSpace = []rune{0x200B, 0xFEFF, 0x2060, 0x00AD, 0x180E} // look like blanks, are not White_Space

func c14Gen() *rapid.Generator[string] {
	piece := rapid.OneOf(
		rapid.StringMatching(`[a-z]{1,8}`),
		rapid.StringOfN(rapid.RuneFrom(c14Spaces), 1, 3, -1),
		rapid.StringOfN(rapid.RuneFrom(c14Controls), 1, 3, -1),
		rapid.StringOfN(rapid.RuneFrom(c14NotSpace), 1, 2, -1),
		rapid.SampledFrom([]string{"<", ">", "|", "&", ";", "$", "\xff", "\xc3", "\xe2\x82", "\xf0\x9f\x98", "é", "日本", "😀", "á"}),
		rapid.StringN(0, 6, -1),
		// a multi-byte character cut in two by control characters: once those are removed the
		// halves join up again - into a white-space, a control or an ordinary character
		rapid.Custom(func(t *rapid.T) string {
			enc := string(rapid.SampledFrom([]rune{0xa0, 0x85, 0x2003, 0x3000, 0x1680, 0x2028, 0x2029, 0x202f, 0x9f, 'é', '日', 0x200b, 0xfeff}).Draw(t, "split-rune"))
			cut := rapid.IntRange(1, len(enc)-1).Draw(t, "cut")
			mid := rapid.StringOfN(rapid.RuneFrom([]rune{0x01, 0x1b, 0x7f, 0x00, 0x08, 0x9f, 0x85}), 1, 2, -1).Draw(t, "wedge")
			return enc[:cut] + mid + enc[cut:]
		}),
	)
	return rapid.Custom(func(t *rapid.T) string {
		switch rapid.IntRange(0, 10).Draw(t, "shape") {
		case 10:
			// a multi-byte character wrapped around itself k times with a control character at the core:
			// each removal lets the next layer join up, so cleaning takes k rounds (k up to several hundred)
			enc := string(rapid.SampledFrom([]rune{0x80, 0x9f, 0x85, 0xa0, 0x2028, 0x3000, 'é', 0x200b}).Draw(t, "nest-rune"))
			k := rapid.SampledFrom([]int{1, 2, 3, 7, 31, 32, 33, 63, 64, 65, 99, 100, 101, 127, 128, 129, 200, 255, 256, 257, 330, 490}).Draw(t, "nest-depth")
			if k*len(enc) > 994 {
				k = 994 / len(enc)
			}
			core := rapid.SampledFrom([]string{"\x01", "\x00", "\x7f", "\x1b", "\x9f"}).Draw(t, "nest-core")
			s := strings.Repeat(enc[:1], k) + core + strings.Repeat(enc[1:], k)
			if rapid.Bool().Draw(t, "nest-words") {
				s = "list " + s + " files"
				if len(s) > 1000 {
					s = s[:1000]
				}
			}
			return s
		case 0:
			return rapid.String().Draw(t, "s")
		case 1:
			b := rapid.SliceOfN(rapid.Byte(), 0, 64).Draw(t, "bytes")
			return string(b)
		case 2, 3: // boundary lengths 990..1010 bytes from 1-, 2-, 3- and 4-byte runes
			target := rapid.IntRange(990, 1010).Draw(t, "len")
			unit := rapid.SampledFrom([]string{"a", "é", "日", "😀", " ", "a b"}).Draw(t, "unit")
			var sb strings.Builder
			for sb.Len()+len(unit) <= target {
				sb.WriteString(unit)
			}
			for sb.Len() < target {
				sb.WriteByte('x')
			}
			s := sb.String()
			if rapid.IntRange(0, 2).Draw(t, "tail") == 0 {
				// the last bytes are something cleaning removes (line ends as a file or the clipboard gives
				// them, blanks, controls): the limit is on the string as given, so a text that is over it
				// only through such a tail is still over it, and one at the limit with the tail inside is not
				tail := rapid.SampledFrom([]string{"\r\n", "\n", "\r", "\r\n\r\n", " ", "  ", "\t", "\x00", "\u00a0", "\u2028", "\u3000", "\x7f", "\n ", " \r\n"}).Draw(t, "tail-text")
				switch rapid.IntRange(0, 2).Draw(t, "tail-mode") {
				case 0: // appended: total = target + tail
					s += tail
				case 1: // inside: total = target
					if len(s) > len(tail) {
						s = strings.ToValidUTF8(s[:len(s)-len(tail)], "x") + tail
					}
				default: // body exactly at the limit, over it only through the tail
					s = strings.Repeat("a", 1000-rapid.IntRange(0, 1).Draw(t, "body-short")) + tail
				}
				return s
			}
			if rapid.Bool().Draw(t, "edge") {
				s = piece.Draw(t, "pre") + s
				if len(s) > target+8 {
					s = s[:target]
				}
			}
			return s
		case 4: // many invalid bytes (the re-encoding hazard)
			n := rapid.IntRange(1, 1000).Draw(t, "n-invalid")
			b := rapid.SampledFrom([]string{"\xff", "\xfe", "\x80", "\xc0"}).Draw(t, "bad")
			s := strings.Repeat(b, n)
			if rapid.Bool().Draw(t, "mix") {
				s = "a " + s
				if len(s) > 1000 && rapid.Bool().Draw(t, "cut") {
					s = s[:1000]
				}
			}
			return s
		default:
			ps := rapid.SliceOfN(piece, 0, 8).Draw(t, "pieces")
			return strings.Join(ps, "")
		}
	})
}

func TestC14_Query(t *testing.T) {
	rec := stat.For("C14")
	rec.Rule("byte strings: rapid.String, raw bytes, a targeted generator mixing all Unicode White_Space, C0/C1 controls, blank look-alikes that are not White_Space, the six metacharacters, invalid UTF-8 (incl. hundreds of invalid bytes), boundary lengths 990-1010 built from 1-4 byte runes. Oracle: err==nil iff the independent acceptor (<=1000 bytes, no < > | & ; $, some rune neither control nor space) accepts; accepted output has no control rune, only single interior blanks, no metacharacter, no more runes than the input, and re-validates to itself. Non-trivial = accepted and changed, or within 3 bytes of the length boundary.")
	rapid.Check(t, func(t *rapid.T) {
		q := c14Gen().Draw(t, "q")
		msg, acc, o := c14Check(q)
		if msg != "" {
			t.Fatalf("%s\n input  (%d bytes) %+q\n output (%d bytes) %+q", msg, len(q), clip(q), len(o), clip(o))
		}
		labels := []string{}
		if acc {
			labels = append(labels, "accepted")
		} else {
			labels = append(labels, "rejected")
		}
		if !utf8.ValidString(q) {
			labels = append(labels, "invalid-utf8")
		}
		near := len(q) >= 997 && len(q) <= 1003
		if near {
			labels = append(labels, "length-boundary")
		}
		rec.Case((acc && o != q) || near, map[string]any{"input": clip(q), "input_bytes": len(q), "accepted": acc, "output": clip(o)}, labels...)
	})
}

func clip(s string) string {
	if len(s) > 120 {
		return s[:60] + "…" + s[len(s)-40:]
	}
	return s
}

func TestC14_Limit(t *testing.T) {
	rec := stat.For("C14")
	rec.Rule("limits: all ints with emphasis on {-1,0,1,5,100,101,MinInt,MaxInt}. Oracle: err==nil implies 1<=v<=100; 0 succeeds (default); negatives and >100 are rejected; 1..100 map to themselves.")
	d, err := validation.ValidateLimit(0)
	if err != nil || d < 1 || d > 100 {
		t.Fatalf("ValidateLimit(0) = %d, %v: the default must be accepted and lie in 1..100", d, err)
	}
	rapid.Check(t, func(t *rapid.T) {
		n := rapid.OneOf(rapid.SampledFrom([]int{-1, 0, 1, 2, 5, 99, 100, 101, 102, 1000, math.MinInt, math.MaxInt, math.MinInt32, math.MaxInt32, math.MaxInt / 2, math.MaxInt/2 + 1, math.MaxInt/3 + 1, math.MaxInt/3 + 34, 1 << 62, 4000000000000000000, math.MaxInt/100 + 1, math.MinInt / 2, math.MinInt/3 - 1, 1 << 32, 1<<32 + 5, 1<<31 + 100}), rapid.IntRange(-200, 300), rapid.Int(), rapid.IntRange(math.MaxInt/128, math.MaxInt), rapid.IntRange(math.MinInt, math.MinInt/128)).Draw(t, "limit")
		v, err := validation.ValidateLimit(n)
		switch {
		case err == nil && (v < 1 || v > 100):
			t.Fatalf("ValidateLimit(%d) accepted with value %d outside 1..100", n, v)
		case n < 0 && err == nil:
			t.Fatalf("ValidateLimit(%d) accepted a negative limit", n)
		case n > 100 && err == nil:
			t.Fatalf("ValidateLimit(%d) accepted a limit above 100", n)
		case n >= 1 && n <= 100 && (err != nil || v != n):
			t.Fatalf("ValidateLimit(%d) = %d, %v; a limit in 1..100 must be accepted unchanged", n, v, err)
		case n == 0 && (err != nil || v != d):
			t.Fatalf("ValidateLimit(0) = %d, %v", v, err)
		}
		rec.Case(n >= -1 && n <= 101, map[string]any{"limit": n, "value": v, "accepted": err == nil}, "limit")
	})
}

// c14CLIQuery draws argv words for the binary: natural-language questions with punctuation
// and stray blanks, plus pieces from the validation generator (no NUL: argv cannot carry it).
func c14CLIQuery(t *rapid.T) []string {
	w := rapid.SampledFrom([]string{"how", "do", "I", "compress", "files", "list", "directory", "what", "is", "this", "disk", "usage", "tar", "find"})
	punct := rapid.SampledFrom([]string{"?", "!", ".", "...", "??", " ?", "? ", " ? ?", ",", ":", "'", "\"", ")", "-", "--", "#", "%", "*", "~", "\\"})
	var words []string
	switch rapid.IntRange(0, 7).Draw(t, "cli-shape") {
	case 7: // the whole query inside one pair of marks (quotes as cmd.exe passes them on, brackets), blanks just inside, or nothing inside
		pair := rapid.SampledFrom([][2]string{{"'", "'"}, {`"`, `"`}, {"`", "`"}, {"(", ")"}, {"[", "]"}, {"{", "}"}, {"'", `"`}}).Draw(t, "marks")
		in := rapid.SampledFrom([]string{"", "", " ", "  ", "\t"}).Draw(t, "inside-lead")
		in2 := rapid.SampledFrom([]string{"", "", " ", "  ", "\t"}).Draw(t, "inside-trail")
		body := gen.TextOf(w, 0, 4).Draw(t, "inside")
		out := rapid.SampledFrom([]string{"", "", " "}).Draw(t, "outside")
		words = []string{out + pair[0] + in + body + in2 + pair[1] + out}
	case 6: // 995-1000 bytes of text, over the limit only through white space around it (or a final empty argument)
		body := strings.Repeat("a", rapid.IntRange(995, 1000).Draw(t, "body-len"))
		pad := rapid.SampledFrom([]string{" ", "  ", "\t", "\n", "\u00a0", "\u3000", "      "})
		switch rapid.IntRange(0, 3).Draw(t, "pad-where") {
		case 0:
			words = []string{pad.Draw(t, "lead") + body}
		case 1:
			words = []string{body + pad.Draw(t, "trail")}
		case 2:
			words = []string{pad.Draw(t, "lead") + body + pad.Draw(t, "trail")}
		default:
			words = []string{body, "", ""}
		}
	case 0: // a question, punctuation at the end
		words = []string{gen.TextOf(w, 1, 5).Draw(t, "sentence") + punct.Draw(t, "end")}
	case 1: // punctuation only
		words = []string{rapid.StringOfN(rapid.RuneFrom([]rune("?!.,:'\")(-#%*~ ")), 1, 5, -1).Draw(t, "punct-only")}
	case 2: // several argv words, punctuation as words of their own
		words = rapid.SliceOfN(rapid.OneOf(w, punct), 1, 6).Draw(t, "argv")
	case 3: // punctuation in front and inside
		words = []string{punct.Draw(t, "front") + gen.TextOf(rapid.OneOf(w, punct), 1, 5).Draw(t, "mixed")}
	default:
		words = []string{c14Gen().Draw(t, "raw")}
	}
	for i := range words {
		words[i] = strings.ReplaceAll(words[i], "\x00", "")
		if len(words[i]) > 1200 {
			words[i] = words[i][:1200]
		}
	}
	return words
}

// TestC14_CLI: validation is the first step of every search of the built binary, and what
// is searched (the 'Searching for:' line, the recorded history entry) is the validated query.
func TestC14_CLI(t *testing.T) {
	needWtf(t)
	rec := stat.For("C14")
	rec.Rule("built binary in an isolated HOME: argv words from natural-language questions with leading / trailing / interior punctuation (? ! . , quotes ...), punctuation-only queries, several argv words, and the validation generator's byte strings (NUL removed), invoked as `wtf q` and `wtf search q`. Oracle: a query the validator rejects prints no 'Searching for:' line and records nothing; an accepted one prints exactly 'Searching for: <ValidateQuery(q)>' and the newest history entry is that string - so what is searched is clean in the sense checked on ValidateQuery. Non-trivial = accepted and the cleaned query differs from the joined argv.")
	rapid.Check(t, func(t *rapid.T) {
		dir := mkdirWork("c14-")
		defer os.RemoveAll(dir)
		h, _ := proc.NewHome(dir)
		dbp := filepath.Join(dir, "db.yml")
		os.WriteFile(dbp, gen.EmitYAML(c08Main), 0o644)
		words := c14CLIQuery(t)
		joined := strings.Join(words, " ")
		var args []string
		if rapid.Bool().Draw(t, "sub") {
			args = append(args, "search")
		}
		args = append(args, "-d", dbp, "--no-color", "--")
		args = append(args, words...)
		r := runWtf(h, dir, args)
		if r.Panicked() || r.Signaled || r.TimedOut || (r.ExitCode != 0 && r.ExitCode != 1) {
			t.Fatalf("wtf %+q crashed (exit %d): %s %s", args, r.ExitCode, clip(r.Stdout), clip(r.Stderr))
		}
		msg, acc, cleaned := c14Check(joined)
		if msg != "" {
			t.Fatalf("%s\n input %+q output %+q", msg, clip(joined), clip(cleaned))
		}
		hist := histEntries(h.History())
		if !acc {
			if strings.Contains(r.Stdout, "Searching for:") {
				t.Fatalf("the validator rejects %+q but the binary searched it:\n%s", clip(joined), clip(r.Stdout))
			}
			if len(hist) != 0 {
				t.Fatalf("a rejected query was recorded in the history: %+v", hist)
			}
			rec.Case(false, map[string]any{"cli": true, "argv": clip(joined), "accepted": false}, "cli", "cli-rejected")
			return
		}
		if !strings.Contains(r.Stdout, "Searching for: "+cleaned+"\n") {
			line := ""
			for _, l := range strings.Split(r.Stdout, "\n") {
				if strings.HasPrefix(l, "Searching for:") {
					line = l
				}
			}
			t.Fatalf("argv %+q validates to %+q, but the binary reports %+q (the searched query is not the validated one)\n%s", clip(joined), clip(cleaned), line, clip(r.Stdout))
		}
		if len(hist) != 1 || hist[0].Query != jsonRoundTrip(cleaned) {
			t.Fatalf("argv %+q validates to %+q, but the history records %+v", clip(joined), clip(cleaned), hist)
		}
		rec.Case(cleaned != joined, map[string]any{"cli": true, "argv": clip(joined), "accepted": true, "searched": clip(cleaned)}, "cli", "cli-accepted")
	})
}
