package props

import (
	"fmt"
	"math"
	"strings"
	"testing"

	"github.com/sahilm/fuzzy"

	"github.com/Vedant9500/WTF/internal/constants"
	"github.com/Vedant9500/WTF/internal/database"
	"github.com/Vedant9500/WTF/verifharness/gen"
	"github.com/Vedant9500/WTF/verifharness/ref"
	"github.com/Vedant9500/WTF/verifharness/stat"
	"pgregory.net/rapid"
)

// C07 — typo fallback runs only when nothing matches and returns genuine matches.

const c07KnownNegThreshold = "negative-threshold-not-applied"

// quality recomputes the match quality with the matcher the engine documents.
func c07Quality(q, text string) (int, bool) {
	m := fuzzy.Find(q, []string{text})
	if len(m) == 0 {
		return 0, false
	}
	return m[0].Score, true
}

func c07Text(c *database.Command) string { return c.Command + " " + c.Description }

func stripNUL(s string) string { return strings.ReplaceAll(s, "\x00", "") }

func TestC07_Fallback(t *testing.T) {
	rec := stat.For("C07")
	rec.Rule("databases x queries (exact words, misspellings, fragments, one letter, punctuation only, Unicode) x thresholds {0,-30,-100,5,40} x NLP on/off, Limit >= N. Oracle: (a) results(fuzzy off) non-empty => results(fuzzy on) identical; (b) otherwise every result contains the query as a case-folded subsequence of command+' '+description (own matcher), its quality recomputed with sahilm/fuzzy is >= the threshold when one is set, its score is clamp((quality+B)/B,0,1), qualities non-increasing; (c) threshold 0, all platforms: some entry contains the query as a subsequence => non-empty answer. Non-trivial = fallback ran and returned something, or (a) with >=2 results.")
	rec.RequireShare("fallback-ran", 0.25)
	rec.RequireShare("threshold-set", 0.30)
	knownNeg := isKnown("C07", c07KnownNegThreshold)
	B := constants.FuzzyNormalizationBase
	caseNo := 0
	rapid.Check(t, func(t *rapid.T) {
		caseNo++ // (rare, expensive constructions are scheduled by case number: drawn integers favour their bounds)
		cmds, cls := gen.DB(t, gen.CmdOpts{Platforms: true, Unicode: rapid.IntRange(0, 3).Draw(t, "u") == 0, Long: true}, []int{0, 1, 3, 10, 1})
		needle := ""
		if rapid.IntRange(0, 15).Draw(t, "needle-db") == 0 {
			// a large database with ONE entry that can answer, at a drawn position (ends and block
			// boundaries included): whatever batches, chunks or caps the matcher works in, it must reach it
			n := rapid.OneOf(rapid.SampledFrom([]int{255, 256, 257, 258, 259, 511, 513, 1001, 1003, 1023, 1025, 1026, 1027}), rapid.IntRange(200, 1100)).Draw(t, "needle-n")
			cmds = gen.Bulk(t, n, gen.CmdOpts{})
			pos := rapid.OneOf(rapid.SampledFrom([]int{0, 1, n - 1, n - 2, n - 3, n - 4, n / 2, n / 4, 255, 256, 1023, 1024}), rapid.IntRange(0, n-1)).Draw(t, "needle-pos")
			if pos >= n {
				pos = n - 1
			}
			needle = rapid.SampledFrom([]string{"qzjxvk", "wyvernquoz", "xyzzyplugh"}).Draw(t, "needle-word")
			cmds[pos] = database.Command{Command: "run " + needle + " now", Description: "the only entry that can answer"}
			cls = "needle"
		}
		db := gen.Load(t, cmds)
		q, qc := gen.Query(t, cmds, []gen.QueryClass{"vocab", "typo", "typo", "typo", "fragment", "fragment", "one", "punct", "mixed", "unicode", "stop"})
		if needle != "" {
			d := rapid.IntRange(0, len(needle)-1).Draw(t, "needle-drop")
			q, qc = needle[:d]+needle[d+1:], "needle-typo" // one letter dropped: no lexical match, a subsequence of the needle only
		}
		q = stripNUL(q)
		longTail := false
		for i := range cmds {
			// a misspelling or a fragment of the LAST word of a 300-700 byte text: only the end of the text can match it
			if tail := gen.LongTail(&cmds[i]); tail != "" && rapid.IntRange(0, 2).Draw(t, "ask-tail") == 0 {
				if rapid.Bool().Draw(t, "tail-typo") {
					q = gen.Typo(t, tail)
				} else {
					q = tail[:rapid.IntRange(2, len(tail)-1).Draw(t, "tail-frag")]
				}
				qc, longTail = "long-tail", true
				break
			}
		}
		if needle == "" && !longTail && rapid.IntRange(0, 7).Draw(t, "edge-blank") == 0 {
			// a misspelt word with a blank in front or behind: the blank is part of what is matched
			toks := gen.Tokens(cmds)
			if len(toks) > 0 {
				w := gen.Typo(t, rapid.SampledFrom(toks).Draw(t, "blank-word"))
				q, qc = rapid.SampledFrom([]string{" " + w, w + " ", " " + w + " ", w + "  ", " "}).Draw(t, "blank-shape"), "edge-blank"
			}
		}
		filtered := ""
		if needle == "" && !longTail && len(cmds) > 0 && rapid.IntRange(0, 9).Draw(t, "filtered-lexical") == 0 {
			// the query word occurs as a word only in entries the filter rejects, and - letter by letter -
			// in an entry the filter accepts: the lexical stage finds nothing it may return, the fallback must
			word := rapid.SampledFrom([]string{"zorvex", "plinth", "quaggy"}).Draw(t, "filtered-word")
			filtered = rapid.SampledFrom([]string{"pipeline", "platform"}).Draw(t, "filtered-by")
			rejected := database.Command{Command: word + " run", Description: "plain " + word}
			accepted := database.Command{Command: strings.Join(strings.Split(word, ""), "-") + " all | cat", Description: "spelled out", Pipeline: true}
			if filtered == "platform" {
				rejected.Platform = []string{"plan9"}
			}
			cmds = append(append(cloneCmds(cmds), rejected), accepted)
			db = gen.Load(t, cmds)
			q, qc = word, "filtered-lexical"
		}
		wide := false
		if needle == "" && !longTail && filtered == "" && rapid.IntRange(0, 9).Draw(t, "wide-spelling") == 0 {
			// a terse entry (a short alias, little or no description) asked for with one letter dropped and
			// in letters whose other case forms take MORE bytes (k / U+212A, s / U+017F, a-ring / U+212B):
			// the query is longer than the text that contains it, letter for letter
			base := rapid.StringOfN(rapid.RuneFrom([]rune{'k', 's', 'k', 's', 'x', 'a', 'å'}), 3, 6, -1).Draw(t, "wide-base")
			terse := database.Command{Command: base, Description: rapid.SampledFrom([]string{"", "", "k", "s x"}).Draw(t, "wide-desc")}
			rs := []rune(base)
			d := rapid.IntRange(0, len(rs)-1).Draw(t, "wide-drop")
			rs = append(rs[:d:d], rs[d+1:]...)
			for i, r := range rs {
				if w, ok := map[rune]rune{'k': '\u212a', 's': '\u017f', 'å': '\u212b'}[r]; ok && rapid.IntRange(0, 3).Draw(t, "wide-here") != 0 {
					rs[i] = w
				}
			}
			cmds = append(cloneCmds(cmds), terse)
			db = gen.Load(t, cmds)
			q, qc, wide = string(rs), "wide-spelling", true
		}
		if needle == "" && !longTail && filtered == "" && !wide && rapid.IntRange(0, 11).Draw(t, "whole-text") == 0 {
			// a terse entry made of words the index drops (single letters, punctuation, stop words), asked
			// for by its WHOLE text - command, blank, description - in other letter case, or by all of it but
			// the first / last character: the query is exactly as long as the text that contains it
			w := rapid.SampledFrom([]string{"x", "y", "q", "!!", "#", "a", "-", "to", "k", "??", "%", "the", "é", "z"})
			terse := database.Command{Command: w.Draw(t, "whole-cmd"), Description: rapid.SampledFrom([]string{"", "y", "#", "x y", "q", "!", "z z", "to"}).Draw(t, "whole-desc")}
			if rapid.IntRange(0, 3).Draw(t, "whole-two-words") == 0 {
				terse.Command += " " + w.Draw(t, "whole-cmd2")
			}
			text := terse.Command + " " + terse.Description
			switch rapid.IntRange(0, 4).Draw(t, "whole-cut") {
			case 0:
				text = text[1:]
			case 1:
				text = text[:len(text)-1]
			}
			text = strings.ToValidUTF8(text, "")
			if rapid.Bool().Draw(t, "whole-upper") {
				text = strings.ToUpper(text)
			}
			if strings.TrimSpace(text) != "" {
				cmds = append(cloneCmds(cmds), terse)
				db = gen.Load(t, cmds)
				q, qc, wide = text, "whole-text", true
			}
		}
		crowded := ""
		if needle == "" && !longTail && filtered == "" && !wide && caseNo%150 == 75 {
			// a big database (beyond any block size a matcher may work in) in which dozens to hundreds of
			// entries match the query BETTER than the one entry the filter accepts, all of them rejected by
			// that filter and sitting around it: the accepted entry must still come back
			n := rapid.SampledFrom([]int{2049, 2300, 3073, 4100}).Draw(t, "crowd-n")
			k := rapid.SampledFrom([]int{66, 130, 300}).Draw(t, "crowd-decoys")
			word := rapid.SampledFrom([]string{"qzjxvk", "wyvquoz"}).Draw(t, "crowd-word")
			crowded = rapid.SampledFrom([]string{"pipeline", "platform"}).Draw(t, "crowd-filter")
			big := gen.Bulk(t, n, gen.CmdOpts{})
			at := rapid.IntRange(0, n-k-2).Draw(t, "crowd-at")
			for i := 0; i < k; i++ {
				big[at+i] = database.Command{Command: fmt.Sprintf("%s%d run", word, i), Description: "matches better, not eligible"}
				if crowded == "platform" {
					big[at+i].Platform = []string{"plan9"}
				}
			}
			acc := at + rapid.SampledFrom([]int{0, k / 2, k - 1, k}).Draw(t, "crowd-accepted-at")
			big[acc] = database.Command{Command: strings.Join(strings.Split(word, ""), "-") + " all | cat", Description: "spelled out", Pipeline: true}
			cmds, cls = big, "crowded"
			db = gen.Load(t, cmds)
			q, qc = word, "crowded-out"
		}
		reindexed := false
		if len(cmds) > 0 && len(cmds) <= 80 && rapid.IntRange(0, 5).Draw(t, "same-size-reindex") == 0 {
			// the database held as many OTHER entries, was searched there (typo fallback included), then
			// its entries were overwritten in place and the index rebuilt with the exported
			// BuildUniversalIndex ("call after loading/merging commands"): the fallback reads the present texts
			old := make([]database.Command, len(cmds))
			for i := range old {
				old[i] = gen.Command(gen.CmdOpts{Platforms: true}).Draw(t, "old-entry")
			}
			db = gen.Load(t, old)
			for _, wq := range []string{"zzqq", q, "find files"} {
				db.SearchUniversal(wq, database.SearchOptions{Limit: 5, UseFuzzy: true, AllPlatforms: true, UseNLP: rapid.Bool().Draw(t, "old-nlp")})
			}
			copy(db.Commands, gen.Load(t, cmds).Commands)
			db.BuildUniversalIndex()
			reindexed = true
		}
		tr := true
		opt := gen.Options(t, gen.OptSpec{N: len(cmds), BigLimit: true, FixFuzzy: &tr, Thresholds: []int{0, 0, -30, -100, 5, 40, 200, math.MaxInt, math.MaxInt - 1, math.MaxInt - 99, math.MaxInt - 100, math.MinInt, math.MinInt + 100, 1 << 40}})
		if rapid.Bool().Draw(t, "open-filters") {
			opt.AllPlatforms, opt.PipelineOnly, opt.Platforms, opt.NoCrossPlatform = true, false, nil, false
		}
		var labels0 []string
		if wide {
			opt.AllPlatforms, opt.PipelineOnly, opt.Platforms, opt.NoCrossPlatform, opt.FuzzyThreshold = true, false, nil, false, 0
			labels0 = append(labels0, "query-longer-than-its-match")
		}
		if crowded != "" {
			filtered = crowded // the same option settings as the small filtered construction
			opt.Limit = rapid.SampledFrom([]int{1, 5, 5, 10, 50}).Draw(t, "crowd-limit")
		}
		switch filtered {
		case "pipeline":
			opt.PipelineOnly, opt.FuzzyThreshold = true, 0
		case "platform":
			opt.PipelineOnly, opt.AllPlatforms, opt.Platforms, opt.NoCrossPlatform, opt.FuzzyThreshold = false, false, []string{"linux"}, true, 0
		}
		smallLimit := rapid.IntRange(0, 1).Draw(t, "small-limit") == 0
		if smallLimit {
			// the never-left-empty claim holds for every limit: try the ones that truncate
			opt.Limit = rapid.SampledFrom([]int{1, 1, 2, 3}).Draw(t, "limit")
		} else if rapid.IntRange(0, 5).Draw(t, "huge-limit") == 0 {
			// "no limit" as callers spell it: the largest ints
			opt.Limit = rapid.SampledFrom([]int{math.MaxInt, math.MaxInt/2 + 1, math.MaxInt / 2, 1 << 62, math.MaxInt32, math.MaxInt32 + 1}).Draw(t, "huge")
			labels0 = append(labels0, "huge-limit")
		}
		warmed := warmUp(t, db, cmds, q, opt)
		off := opt
		off.UseFuzzy = false
		rOff := db.SearchUniversal(q, off)
		rOn := db.SearchUniversal(q, opt)
		labels := append([]string{"db:" + string(cls), "q:" + string(qc)}, labels0...)
		if opt.FuzzyThreshold != 0 {
			labels = append(labels, "threshold-set")
		}
		nontrivial := false
		if smallLimit {
			labels = append(labels, "small-limit")
		}
		if longTail {
			labels = append(labels, "long-text-tail-query")
		}
		if warmed > 0 {
			labels = append(labels, "warmed-database")
		}
		if reindexed {
			labels = append(labels, "rewritten-in-place-and-reindexed")
		}
		if len(rOff) > 0 {
			a, b := rank(db, rOff), rank(db, rOn)
			if !rankEq(a, b) {
				t.Fatalf("typo tolerance changed an existing answer: off=%s on=%s; query=%q options=%v\n db=%v", rankStr(a), rankStr(b), q, optBrief(opt), gen.BriefDB(cmds, 12))
			}
			nontrivial = len(rOff) >= 2
			labels = append(labels, "lexical-answer")
		} else {
			labels = append(labels, "fallback-ran")
			prevQ := math.MaxInt
			for i, r := range rOn {
				text := c07Text(r.Command)
				if !ref.FoldSubsequence(q, text) {
					t.Fatalf("fallback result %d %q does not contain the query %q in order (ignoring case)", i, text, q)
				}
				qual, ok := c07Quality(q, text)
				if !ok {
					t.Fatalf("fallback result %d %q is not a match of %q for the documented matcher", i, text, q)
				}
				if opt.FuzzyThreshold != 0 && qual < opt.FuzzyThreshold {
					if opt.FuzzyThreshold < 0 && knownNeg {
						rec.Excluded(c07KnownNegThreshold)
					} else {
						t.Fatalf("fallback result %d %q has match quality %d, below the requested threshold %d; query=%q", i, text, qual, opt.FuzzyThreshold, q)
					}
				}
				want := (float64(qual) + B) / B
				want = math.Max(0, math.Min(1, want))
				if r.Score != want {
					t.Fatalf("fallback result %d %q: score %v, want clamp((quality %d + %v)/%v) = %v", i, text, r.Score, qual, B, B, want)
				}
				if qual > prevQ {
					t.Fatalf("fallback results not ordered best match first: quality %d after %d; query=%q", qual, prevQ, q)
				}
				prevQ = qual
			}
			if len(rOn) > 0 {
				nontrivial = true
				labels = append(labels, "fallback-answered")
			}
			if opt.FuzzyThreshold == 0 && len(rOn) == 0 && q != "" {
				for i := range cmds {
					// certainly eligible: all platforms requested or no platform declared, and a
					// pipeline command when only pipelines are wanted
					if !c07CertainlyEligible(&cmds[i], opt) {
						continue
					}
					if ref.FoldSubsequence(q, c07Text(&cmds[i])) {
						t.Fatalf("query %q occurs in order in the eligible entry #%d %q but the fallback returned nothing (no threshold set); options=%v\n db=%v", q, i, c07Text(&cmds[i]), optBrief(opt), gen.BriefDB(cmds, 16))
					}
				}
			}
		}
		rec.Case(nontrivial, map[string]any{"db": gen.BriefDB(cmds, 5), "query": q, "options": optBrief(opt), "off": len(rOff), "on": len(rOn)}, labels...)
	})
}

// c07CertainlyEligible: eligible under every reading of the platform rule - all platforms
// requested, no platform declared, or a declared platform that is literally (ignoring
// case) one of the platforms in force - and a pipeline command when only pipelines are wanted.
func c07CertainlyEligible(c *database.Command, opt database.SearchOptions) bool {
	if opt.PipelineOnly && !ref.IsPipeline(c) {
		return false
	}
	if opt.AllPlatforms || len(c.Platform) == 0 {
		return true
	}
	inForce := opt.Platforms
	if len(inForce) == 0 {
		inForce = []string{database.VerifHostPlatform()}
	}
	for _, p := range c.Platform {
		for _, f := range inForce {
			if strings.EqualFold(p, f) {
				return true
			}
		}
	}
	return false
}

// TestC07_Known re-executes the stored reproduction of the listed known finding.
func TestC07_Known(t *testing.T) {
	if !isKnown("C07", c07KnownNegThreshold) {
		t.Skip("not listed as known")
	}
	cmds := []database.Command{{Command: "systemctl", Description: "control the systemd system and service manager for linux hosts everywhere and always"}}
	db := gen.Load(t, cmds)
	res := db.SearchUniversal("x", database.SearchOptions{Limit: 5, UseFuzzy: true, FuzzyThreshold: -30, AllPlatforms: true})
	for _, r := range res {
		if qual, ok := c07Quality("x", c07Text(r.Command)); ok && qual < -30 {
			reportKnown("C07", c07KnownNegThreshold)
			fmt.Printf("  repro: query \"x\", threshold -30, returned %q with match quality %d\n", r.Command.Command, qual)
			return
		}
	}
}
