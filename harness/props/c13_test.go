package props

import (
	"encoding/json"
	"fmt"
	"math"
	"os"
	"path/filepath"
	"reflect"
	"sort"
	"strings"
	"testing"

	wctx "github.com/Vedant9500/WTF/internal/context"
	"github.com/Vedant9500/WTF/internal/database"
	"github.com/Vedant9500/WTF/internal/embedding"
	"github.com/Vedant9500/WTF/verifharness/gen"
	"github.com/Vedant9500/WTF/verifharness/ref"
	"github.com/Vedant9500/WTF/verifharness/stat"
	"pgregory.net/rapid"
)

// C13 — project context only re-ranks, in favour of commands that mention it.

func TestC13_Boosts(t *testing.T) {
	rec := stat.For("C13")
	rec.Rule("(A) databases x queries x boost maps (1-3 words from the vocabulary incl. words absent from query and documents, factors in [1,5]) x NLP on/off x fuzzy on/off, Limit >= N: paired SearchUniversal with and without ContextBoosts. Oracle: same result set; a command none of whose fields contains a boosted word keeps its score bit-for-bit; a command that contains one never scores lower. Non-trivial = a boosted word occurs in the query and in some but not all results.")
	rapid.Check(t, func(t *rapid.T) {
		cmds, cls := gen.DB(t, gen.CmdOpts{Platforms: true, Sized: true, Heavy: true}, []int{0, 1, 3, 10, 1})
		ubiq := ""
		if rapid.IntRange(0, 4).Draw(t, "ubiquitous") == 0 {
			// a word in (nearly) every entry of a 50-200 entry database: its idf is as small as it gets
			if len(cmds) < 50 {
				cmds = append(cmds, gen.Bulk(t, rapid.IntRange(50, 200).Draw(t, "pad-n"), gen.CmdOpts{})...)
			}
			ubiq = gen.Ubiquitous(t, cmds)
		}
		db := gen.Load(t, cmds)
		withEmb := false
		if len(cmds) > 0 && len(cmds) <= 80 && rapid.IntRange(0, 2).Draw(t, "embeddings") == 0 {
			// the optional semantic stage runs after the boosts: it must not make one entry's score depend on another's
			database.VerifSetEmbeddingIndex(db, drawEmbeddingIndex(t, cmds))
			withEmb = true
		}
		warmUp(t, db, cmds)
		q, qc := gen.Query(t, cmds, []gen.QueryClass{"vocab", "vocab", "vocab", "nlp", "nlp", "mixed", "typo", "long"})
		var runnerUp map[string]float64
		if rapid.IntRange(0, 11).Draw(t, "semantic-runner-up") == 0 {
			// two entries of one shape, each with a word of its own, asked for together: equal before the
			// semantic stage. Only the second is close to the query in meaning; only the first contains the
			// word the context boosts. What the second scores is no business of that boost
			ws := rapid.SliceOfNDistinct(rapid.SampledFrom([]string{"zorvex", "plinth", "quarn", "vexil", "drumlin", "sporran"}), 2, 2, func(s string) string { return s }).Draw(t, "runner-up-words")
			cmds = []database.Command{{Command: ws[0] + " sync", Description: "keeps things in step"}, {Command: ws[1] + " sync", Description: "keeps things in step"}, {Command: "other tool", Description: "unrelated"}}
			db = gen.Load(t, cmds)
			v := rapid.SliceOfN(rapid.Float32Range(0.2, 1), 4, 4).Draw(t, "runner-up-vec")
			sim := rapid.SampledFrom([]float32{1, 0.9, 0.5}).Draw(t, "runner-up-closeness")
			away := []float32{v[1], -v[0], v[3], -v[2]} // at right angles to v
			near := make([]float32, 4)
			for i := range near {
				near[i] = sim*v[i] + (1-sim)*away[i]
			}
			database.VerifSetEmbeddingIndex(db, &embedding.Index{Dimension: 4, WordVectors: map[string][]float32{ws[0]: v, ws[1]: v},
				CmdEmbeddings: [][]float32{away, near, make([]float32, 4)}})
			q, qc, cls, withEmb, ubiq = ws[0]+" "+ws[1], "runner-up", "semantic-runner-up", true, ""
			runnerUp = map[string]float64{ws[0]: rapid.SampledFrom([]float64{1.5, 2, 3, 5}).Draw(t, "runner-up-boost")}
		}
		if ubiq != "" {
			q = rapid.SampledFrom([]string{ubiq, ubiq + " " + q, q + " " + ubiq}).Draw(t, "ubiquitous-query")
		}
		opt := gen.Options(t, gen.OptSpec{N: len(cmds), BigLimit: true, NoBoosts: true})
		toks := gen.Tokens(cmds)
		overCap := false
		if rapid.IntRange(0, 5).Draw(t, "over-the-term-cap") == 0 {
			// more distinct indexed words than the engine keeps for a long query: which ones it keeps
			// is no business of the context either
			c := rapid.SampledFrom([]int{5, 6, 8, 10, 0}).Draw(t, "term-cap")
			keep := c
			if keep == 0 {
				keep = 10
			}
			ws := rapid.SliceOfNDistinct(rapid.SampledFrom(append([]string{"zzqx"}, toks...)), 0, keep+6, func(s string) string { return strings.ToLower(s) }).Draw(t, "over-cap-words")
			if qq := strings.Join(ws, " "); len(ref.Tokenize(qq)) > keep && ref.Distinct(ref.Tokenize(qq)) {
				q, qc, overCap = qq, "over-cap", true
				opt.TopTermsCap = c
			}
		}
		qtoks := ref.Tokenize(q)
		pool := append(append([]string{"zzqx", "git", "docker", "build"}, toks...), qtoks...)
		pool = append(pool, qtoks...) // query words are the interesting ones
		if ubiq != "" {
			pool = append(pool, ubiq, ubiq, ubiq, ubiq, ubiq, ubiq)
		}
		for _, w := range qtoks {
			// near misses of query words: another word, however similar, is another word
			pool = append(pool, w+"s", w+"es", w+"ing", "x"+w, w+w)
			if len(w) > 2 {
				pool = append(pool, w[:len(w)-1])
			}
		}
		boosts := map[string]float64{}
		for i := rapid.IntRange(1, 3).Draw(t, "nb"); i > 0; i-- {
			boosts[rapid.SampledFrom(pool).Draw(t, "bw")] = rapid.SampledFrom([]float64{1, 1.3, 1.5, 2, 2.5, 3, 5}).Draw(t, "bf")
		}
		if runnerUp != nil {
			boosts = runnerUp
		}
		if overCap && rapid.IntRange(0, 3).Draw(t, "boost-commonest") > 0 {
			// the context names the most common of the later words (the ones a pruning step would drop first)
			docs := ref.Index(cmds)
			df := func(w string) int {
				n := 0
				for i := range docs {
					if docs[i].Has(w) {
						n++
					}
				}
				return n
			}
			later := append([]string(nil), qtoks[4:]...)
			sort.SliceStable(later, func(i, j int) bool { return df(later[i]) > df(later[j]) })
			boosts = map[string]float64{}
			for _, w := range later[:min(len(later), rapid.IntRange(1, 3).Draw(t, "n-common"))] {
				boosts[w] = rapid.SampledFrom([]float64{2, 3, 5}).Draw(t, "bf-common")
			}
		}
		with := opt
		with.ContextBoosts = boosts
		given := map[string]float64{} // the boosts as the caller made them
		for k, v := range boosts {
			given[k] = v
		}
		reused := false
		if rapid.IntRange(0, 2).Draw(t, "boost-map-reused") == 0 {
			// a program keeps ONE boost map for its working directory and hands it to every search: the
			// searches before this one (the same words with the language stage on, an everyday sentence)
			// are no reason for this one to score differently
			reused = true
			pre := with
			pre.UseNLP = true
			db.SearchUniversal(q, pre)
			db.SearchUniversal(rapid.SampledFrom([]string{"install a package", "find files", "create a directory", "show running processes", "compress a folder", "delete files"}).Draw(t, "earlier-sentence")+" "+q, pre)
		}
		a := rank(db, db.SearchUniversal(q, opt))
		b := rank(db, db.SearchUniversal(q, with))
		sa, sb := map[int]float64{}, map[int]float64{}
		for _, x := range a {
			sa[x.Idx] = math.Float64frombits(x.Bits)
		}
		for _, x := range b {
			sb[x.Idx] = math.Float64frombits(x.Bits)
		}
		ctx := func() string {
			return fmt.Sprintf("query=%q boosts=%v options=%v\n without: %s\n with:    %s\n db=%v", q, boosts, optBrief(opt), rankStr(a), rankStr(b), gen.BriefDB(cmds, 12))
		}
		if len(sa) != len(sb) {
			t.Fatalf("context boosts changed the candidate set (%d vs %d)\n%s", len(sa), len(sb), ctx())
		}
		docs := ref.Index(cmds)
		some, notAll := false, false
		for i, s0 := range sa {
			s1, ok := sb[i]
			if !ok {
				t.Fatalf("context boosts removed entry #%d\n%s", i, ctx())
			}
			contains := false
			for w := range given {
				if docs[i].Has(w) {
					contains = true
				}
			}
			if contains {
				some = true
				if s1 < s0 {
					t.Fatalf("boosting lowered the score of entry #%d, which contains a boosted word: %v -> %v\n%s", i, s0, s1, ctx())
				}
			} else {
				notAll = true
				if math.Float64bits(s0) != math.Float64bits(s1) {
					t.Fatalf("boosting changed the score of entry #%d, which contains no boosted word: %v -> %v\n%s", i, s0, s1, ctx())
				}
			}
		}
		inQuery := false
		for w := range boosts {
			for _, x := range qtoks {
				if x == w {
					inQuery = true
				}
			}
		}
		labels := []string{"boosts", "db:" + string(cls), "q:" + string(qc)}
		if opt.UseNLP {
			labels = append(labels, "nlp")
		}
		if withEmb {
			labels = append(labels, "embedding-index-attached")
		}
		if reused {
			labels = append(labels, "boost-map-reused")
		}
		rec.Case(inQuery && some && notAll, map[string]any{"db": gen.BriefDB(cmds, 5), "query": q, "boosts": boosts, "options": optBrief(opt), "results": len(a)}, labels...)
	})
}

var c13Markers = []string{".git", "Dockerfile", "docker-compose.yml", "package.json", "yarn.lock", "node_modules", "webpack.config.js", "vite.config.ts",
	"requirements.txt", "setup.py", "pyproject.toml", "Pipfile", "go.mod", "go.sum", "Cargo.toml", "pom.xml", "build.gradle", "app.csproj", "global.json",
	"Gemfile", "Rakefile", "composer.json", "CMakeLists.txt", "Makefile", "makefile", "k8s-deploy.yaml", "kustomization.yaml", "main.tf", "vars.tfvars",
	"ansible.cfg", "hosts", "site-playbook.yml"}

var c13Decoys = []string{"Dockerfile.bak", "k8s.txt", "x.tfstate", "myplaybook.txt", "README.md", "go.mod.orig", "package.json5", "notes", ".gitignore", "Makefile.am"}

// documented anchors (README): file -> project type that must be reported
var c13Anchors = map[string]wctx.ProjectType{".git": "git", "Dockerfile": "docker", "package.json": "node", "go.mod": "go", "requirements.txt": "python", "Makefile": "make"}

func c13FileContent(t *rapid.T, name string) []byte {
	switch name {
	case "package.json":
		kind := rapid.IntRange(0, 9).Draw(t, "pkg-kind")
		if kind > 6 {
			kind = 0 // (a valid file with scripts is the common case)
		}
		switch kind {
		case 6: // a big project: dozens to hundreds of scripts
			scripts := map[string]string{}
			n := rapid.SampledFrom([]int{12, 13, 15, 16, 17, 31, 32, 33, 40, 64, 100, 256, 300, 1000}).Draw(t, "many-scripts")
			for i := 0; i < n; i++ {
				scripts[fmt.Sprintf("task%d", i)] = "echo x"
			}
			d, _ := json.Marshal(map[string]any{"name": "x", "scripts": scripts})
			return d
		case 0:
			scripts := map[string]string{}
			for _, k := range rapid.SliceOfN(rapid.SampledFrom([]string{"build", "test", "start", "lint", "dev", "deploy", "x y", ""}), 0, 4).Draw(t, "scripts") {
				scripts[k] = "echo " + k
			}
			if rapid.Bool().Draw(t, "compound-names") {
				// names in the group:task / group-task conventions, built from few components, so that one
				// word is a whole name here, a leading group there and a trailing qualifier elsewhere -
				// and sometimes a word that other sources of boosts (project types) also name
				part := rapid.SampledFrom([]string{"build", "test", "docker", "lint", "unit", "e2e", "watch", "git", "npm", "deploy", "go", "make", "k8s"})
				for i, n := 0, rapid.IntRange(1, 6).Draw(t, "n-compound"); i < n; i++ {
					k := part.Draw(t, "part")
					for j, m := 0, rapid.IntRange(0, 2).Draw(t, "more-parts"); j < m; j++ {
						k += rapid.SampledFrom([]string{":", ":", "-", "_", ".", "/", " "}).Draw(t, "joint") + part.Draw(t, "part")
					}
					scripts[k] = "echo " + k
				}
			}
			if rapid.Bool().Draw(t, "tool-commands") {
				// script COMMANDS that run the tools the other marker files stand for (the bundler whose
				// config file may lie next to package.json, docker, make, kubectl, ...): whatever is read
				// out of them meets what the file listing already said
				tool := rapid.SampledFrom([]string{"webpack", "webpack --mode production", "cross-env NODE_ENV=production webpack", "node_modules/.bin/webpack-cli", "webpack-dev-server --hot",
					"vite", "vite build", "npx vite preview", "docker build -t x .", "docker-compose up", "kubectl apply -f k8s", "make all", "go build ./...", "tsc -p .", "jest --ci",
					"terraform plan", "ansible-playbook site.yml", "git push", "npm run build && yarn test", "python -m pytest", "cargo build", "eslint ."})
				for i, n := 0, rapid.IntRange(1, 4).Draw(t, "n-tool-commands"); i < n; i++ {
					scripts[rapid.SampledFrom([]string{"build", "dev", "start", "bundle", "serve", "ci", "deploy"}).Draw(t, "tool-script")] = tool.Draw(t, "tool-command")
				}
			}
			d, _ := json.Marshal(map[string]any{"name": "x", "scripts": scripts})
			return d
		case 1:
			return []byte(`{"name":"x"}`)
		case 2:
			return []byte(`{"scripts": ["a","b"]}`)
		case 3:
			return []byte(`{"scripts": {"a": 1}}`)
		case 4:
			return []byte(`{ not json`)
		default:
			return []byte(`{"scripts":{"big":"` + strings.Repeat("x", 200*1024) + `"}}`)
		}
	case "Makefile", "makefile":
		lines := rapid.SliceOfN(rapid.SampledFrom([]string{"all: build", "build:", "\tgo build ./...", "# comment: x", "VAR = 1", "VAR := a:b", ".PHONY: all", "test: build lint", "  indented: y", "", ":", "a b: c", "clean::", "x=y: z"}), 0, 12).Draw(t, "mk")
		if rapid.IntRange(0, 5).Draw(t, "many-targets") == 0 {
			for i, n := 0, rapid.SampledFrom([]int{13, 15, 16, 17, 32, 33, 64, 100, 300}).Draw(t, "n-targets"); i < n; i++ {
				lines = append(lines, fmt.Sprintf("target%d: dep\n\t@echo %d", i, i))
			}
		}
		return []byte(strings.Join(lines, "\n"))
	default:
		return rapid.SliceOfN(rapid.Byte(), 0, 40).Draw(t, "content")
	}
}

func c13Populate(t *rapid.T, dir string, names []string, contents map[string][]byte) {
	for _, n := range names {
		p := filepath.Join(dir, n)
		if n == ".git" || n == "node_modules" {
			if err := os.Mkdir(p, 0o755); err != nil {
				t.Fatalf("harness: %v", err)
			}
			continue
		}
		switch string(contents[n]) {
		case c13KindDir: // a directory where a project file is expected
			if err := os.Mkdir(p, 0o755); err != nil {
				t.Fatalf("harness: %v", err)
			}
			continue
		case c13KindDangling: // a symbolic link to nothing
			if err := os.Symlink("c13-nowhere", p); err != nil {
				t.Fatalf("harness: %v", err)
			}
			continue
		case c13KindLoop: // a symbolic link to itself
			if err := os.Symlink(n, p); err != nil {
				t.Fatalf("harness: %v", err)
			}
			continue
		}
		if err := os.WriteFile(p, contents[n], 0o644); err != nil {
			t.Fatalf("harness: %v", err)
		}
	}
}

// directory entries that bear a project file's name but are not readable files
const (
	c13KindDir      = "\x00c13-kind:directory"
	c13KindDangling = "\x00c13-kind:dangling-link"
	c13KindLoop     = "\x00c13-kind:link-loop"
)

func c13Odd(b []byte) bool {
	return string(b) == c13KindDir || string(b) == c13KindDangling || string(b) == c13KindLoop
}

func TestC13_Analyzer(t *testing.T) {
	rec := stat.For("C13")
	rec.Rule("(B) temp directories holding any subset of the analyzer's marker files plus decoys, package.json in {valid with scripts, without, scripts of wrong type, malformed, 200 KiB}, Makefiles from random lines. Oracle: AnalyzeDirectory twice and on a second directory with identical content gives identical fields (except WorkingDir); no duplicate project type; never empty; generic iff it is the only element; documented anchors reported; every boost finite and >= 1. Non-trivial = at least two marker files.")
	caseNo := 0
	rapid.Check(t, func(t *rapid.T) {
		markers := rapid.SliceOfNDistinct(rapid.SampledFrom(c13Markers), 0, 6, func(s string) string { return strings.ToLower(s) }).Draw(t, "markers")
		decoys := rapid.SliceOfNDistinct(rapid.SampledFrom(c13Decoys), 0, 3, func(s string) string { return s }).Draw(t, "decoys")
		names := append(append([]string{}, markers...), decoys...)
		// (by case number, not drawn: two such directories in a quick run, one in 700 cases beyond)
		caseNo++
		crowdedDir := caseNo == 40 || caseNo%700 == 400
		if crowdedDir {
			// a directory of thousands of unrelated files (a downloads folder, a data dump) that also holds
			// every documented marker: the listing is the listing, however long
			have := map[string]bool{}
			for _, n := range names {
				have[strings.ToLower(n)] = true
			}
			for _, n := range []string{".git", "Dockerfile", "package.json", "go.mod", "requirements.txt", "Makefile"} {
				if !have[strings.ToLower(n)] {
					names, markers = append(names, n), append(markers, n)
				}
			}
			for i, n := 0, rapid.SampledFrom([]int{5500, 8200, 12000}).Draw(t, "crowd-files"); i < n; i++ {
				names = append(names, fmt.Sprintf("data-%05d.bin", i))
			}
		}
		contents := map[string][]byte{}
		for _, n := range names {
			if strings.HasPrefix(n, "data-") {
				contents[n] = nil
				continue
			}
			contents[n] = c13FileContent(t, n)
		}
		// one directory in six has entries that bear a project file's name without being a readable file: a
		// directory, a dangling symbolic link, a link to itself. Whatever the analyzer makes of those (it may
		// report an error next to its result, as for a listing that fails), what it reports is still a
		// deterministic, duplicate-free list of types and sane boosts
		oddEntries := false
		if !crowdedDir && len(markers) > 0 && rapid.IntRange(0, 5).Draw(t, "odd-entries") == 0 {
			for _, n := range markers {
				if n == ".git" || n == "node_modules" {
					continue
				}
				if k := rapid.SampledFrom([]string{"", "", c13KindDir, c13KindDangling, c13KindLoop}).Draw(t, "odd-kind-"+n); k != "" {
					contents[n], oddEntries = []byte(k), true
				}
			}
		}
		d1, d2 := mkdirWork("c13a-"), mkdirWork("c13b-")
		defer os.RemoveAll(d1)
		defer os.RemoveAll(d2)
		c13Populate(t, d1, names, contents)
		// second directory: same content, files created in reverse order
		rev := append([]string{}, names...)
		for i, j := 0, len(rev)-1; i < j; i, j = i+1, j-1 {
			rev[i], rev[j] = rev[j], rev[i]
		}
		c13Populate(t, d2, rev, contents)
		an := wctx.NewAnalyzer()
		c1, err1 := an.AnalyzeDirectory(d1)
		c1b, _ := an.AnalyzeDirectory(d1)
		c2, err2 := wctx.NewAnalyzer().AnalyzeDirectory(d2)
		if ((err1 != nil || err2 != nil) && !oddEntries) || c1 == nil || c2 == nil || c1b == nil {
			t.Fatalf("AnalyzeDirectory failed: %v %v", err1, err2)
		}
		norm := func(c *wctx.Context) wctx.Context { x := *c; x.WorkingDir = ""; return x }
		if !reflect.DeepEqual(norm(c1), norm(c1b)) {
			t.Fatalf("analysing the same directory twice differs:\n%+v\n%+v\nfiles=%v", norm(c1), norm(c1b), names)
		}
		if !reflect.DeepEqual(norm(c1), norm(c2)) {
			t.Fatalf("two directories with identical listing and content are analysed differently:\n%+v\n%+v\nfiles=%v", norm(c1), norm(c2), names)
		}
		if len(c1.ProjectTypes) == 0 {
			t.Fatalf("no project type reported (not even generic); files=%v", names)
		}
		seen := map[wctx.ProjectType]bool{}
		for _, p := range c1.ProjectTypes {
			if seen[p] {
				t.Fatalf("project type %q reported twice: %v; files=%v", p, c1.ProjectTypes, names)
			}
			seen[p] = true
		}
		if seen[wctx.ProjectTypeGeneric] && len(c1.ProjectTypes) != 1 {
			t.Fatalf("'generic' reported together with recognised types: %v; files=%v", c1.ProjectTypes, names)
		}
		anchored := false
		for _, n := range names {
			if want, ok := c13Anchors[n]; ok && !c13Odd(contents[n]) {
				anchored = true
				if !seen[want] {
					t.Fatalf("file %q present but project type %q not reported: %v", n, want, c1.ProjectTypes)
				}
			}
		}
		unrelatedOnly := true
		for _, n := range decoys {
			if n != "README.md" && n != "notes" {
				unrelatedOnly = false // look-alike names: whether they are recognised is the analyzer's call
			}
		}
		if oddEntries {
			rec.Label("entries-that-are-not-readable-files")
		}
		if len(markers) == 0 && unrelatedOnly && !seen[wctx.ProjectTypeGeneric] {
			t.Fatalf("directory with no marker file (files=%v) not reported as generic: %v", names, c1.ProjectTypes)
		}
		if anchored && seen[wctx.ProjectTypeGeneric] {
			t.Fatalf("'generic' reported although a documented marker file is present: files=%v", names)
		}
		// edit package.json / Makefile in place (same listing) and analyse the same path again:
		// the result must be what a fresh directory with the new content gives
		edited := false
		for _, n := range names {
			if (n == "package.json" || n == "Makefile" || n == "makefile") && !c13Odd(contents[n]) {
				contents[n] = c13FileContent(t, n)
				if err := os.WriteFile(filepath.Join(d1, n), contents[n], 0o644); err != nil {
					t.Fatalf("harness: %v", err)
				}
				edited = true
			}
		}
		if edited {
			d3 := mkdirWork("c13c-")
			defer os.RemoveAll(d3)
			c13Populate(t, d3, names, contents)
			again, _ := an.AnalyzeDirectory(d1)
			fresh, _ := wctx.NewAnalyzer().AnalyzeDirectory(d3)
			if again == nil || fresh == nil {
				t.Fatalf("AnalyzeDirectory returned no context after an in-place edit; files=%v", names)
			}
			if !reflect.DeepEqual(norm(again), norm(fresh)) {
				t.Fatalf("after editing project files in place the directory is analysed as %+v, a fresh directory with the same content as %+v; files=%v", norm(again), norm(fresh), names)
			}
			if !reflect.DeepEqual(again.GetContextBoosts(), fresh.GetContextBoosts()) {
				t.Fatalf("boosts after an in-place edit %v differ from a fresh directory's %v", again.GetContextBoosts(), fresh.GetContextBoosts())
			}
		}
		b1 := c1.GetContextBoosts()
		for rep := 0; rep < 8; rep++ {
			// (eight more calls: a result that depends on the iteration order of a small map differs only now and then)
			if b2 := c1.GetContextBoosts(); !reflect.DeepEqual(b1, b2) {
				t.Fatalf("GetContextBoosts differs between two calls: %v vs %v; files=%v package.json=%.300s", b1, b2, names, contents["package.json"])
			}
		}
		if b2 := c2.GetContextBoosts(); !reflect.DeepEqual(b1, b2) {
			t.Fatalf("two directories with identical listing and content get different boosts: %v vs %v; files=%v package.json=%.300s", b1, b2, names, contents["package.json"])
		}
		for w, f := range b1 {
			if math.IsNaN(f) || math.IsInf(f, 0) || f < 1 {
				t.Fatalf("context boost %q=%v is not a finite factor >= 1; files=%v", w, f, names)
			}
		}
		if d := c1.GetContextDescription(); d == "" {
			t.Fatalf("empty context description; files=%v", names)
		}
		if crowdedDir {
			rec.Label("crowded-directory")
			names = append(names[:0:0], markers...)
		}
		rec.Case(len(markers) >= 2, map[string]any{"files": names, "types": c1.ProjectTypes, "boost_words": len(b1)}, "analyzer")
	})
}
