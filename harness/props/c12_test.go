package props

import (
	"fmt"
	"math"
	"sort"
	"strings"
	"testing"
	"time"

	"github.com/Vedant9500/WTF/internal/cache"
	"github.com/Vedant9500/WTF/verifharness/stat"
	"pgregory.net/rapid"
)

// C12 — the result cache is a correct bounded LRU with a staleness limit.
//
// Oracle: a reference model (recency-ordered list + store-time intervals + counters)
// compared with the real LRUCache after every step. Expiry is judged with interval
// logic on harness-measured time stamps so that no outcome the statement allows is
// rejected (see DESIGN.md C12).

type lruEnt struct {
	key                string
	val                int
	firstMin, firstMax time.Time // interval containing the Put that created the entry
	lastMin, lastMax   time.Time // interval containing the most recent Put
}

type lruModel struct {
	cap     int
	ttl     time.Duration
	ents    []lruEnt // index 0 = most recently used
	hits    int64
	misses  int64
	evicts  int64
	expired int // observed expiries (for evidence)
	recency int // evictions that followed a recency-changing op on a non-newest key
	touched bool
}

func (m *lruModel) find(k string) int {
	for i := range m.ents {
		if m.ents[i].key == k {
			return i
		}
	}
	return -1
}

func (m *lruModel) toFront(i int) {
	if i != 0 {
		m.touched = true // a non-newest key became newest: recency now matters
	}
	e := m.ents[i]
	copy(m.ents[1:i+1], m.ents[:i])
	m.ents[0] = e
}

func (m *lruModel) remove(i int) { m.ents = append(m.ents[:i], m.ents[i+1:]...) }

func (m *lruModel) put(k string, v int, t0, t1 time.Time) {
	if i := m.find(k); i >= 0 {
		m.ents[i].val = v
		m.ents[i].lastMin, m.ents[i].lastMax = t0, t1
		m.toFront(i)
		return
	}
	m.ents = append([]lruEnt{{k, v, t0, t1, t0, t1}}, m.ents...)
	if len(m.ents) > m.cap {
		m.ents = m.ents[:len(m.ents)-1]
		m.evicts++
		if m.touched {
			m.recency++
		}
	}
}

// mustMiss: even the most recent store is older than the lifetime.
func (m *lruModel) mustMiss(e lruEnt, nowMin time.Time) bool {
	return m.ttl > 0 && nowMin.Sub(e.lastMax) > m.ttl
}

// mustHit: even the first store is within the lifetime.
func (m *lruModel) mustHit(e lruEnt, nowMax time.Time) bool {
	return m.ttl <= 0 || nowMax.Sub(e.firstMin) <= m.ttl
}

// mayBeExpired: the oldest store of this entry may be beyond the lifetime.
func (m *lruModel) mayBeExpired(e lruEnt, nowMax time.Time) bool {
	return m.ttl > 0 && nowMax.Sub(e.firstMin) > m.ttl
}

func (m *lruModel) keys() []string {
	ks := make([]string, len(m.ents))
	for i, e := range m.ents {
		ks[i] = e.key
	}
	sort.Strings(ks)
	return ks
}

type lruStep struct {
	Op  string `json:"op"`
	Key string `json:"key,omitempty"`
	Res string `json:"res,omitempty"`
}

// nilValue stands for a stored nil in the reference model (real values count up from 1).
const nilValue = -1

func lruProperty(regimes []string) func(t *rapid.T) {
	rec := stat.For("C12")
	rec.Rule("rapid state machine over cache.NewLRUCache(cap, ttl): cap in {-3,0,1,2,3,5,100}, lifetime regime in {unlimited, long(1h), elapsed(1ns + sleep before each step), boundary(20ms with 4-26ms sleep actions as frequent as reads and writes)}, actions put/get/delete/clear/sweep/putMany + invariant (size, stats, keys) after every step, compared with a reference LRU model. Non-trivial = at least one capacity eviction after a get-hit/update moved a non-newest key to the front, or at least one observed expiry.")
	return func(t *rapid.T) {
		capIn := rapid.SampledFrom([]int{2, 1, 3, 2, 3, 4, 1, 5, -3, 0, 100}).Draw(t, "cap")
		regime := rapid.SampledFrom(regimes).Draw(t, "regime")
		var ttl time.Duration
		switch regime {
		case "unlimited":
			ttl = 0
		case "long":
			ttl = time.Hour
		case "elapsed":
			ttl = time.Nanosecond
		case "boundary":
			ttl = 20 * time.Millisecond
		case "centuries": // legal, just very long: nothing expires while the test runs
			ttl = rapid.SampledFrom([]time.Duration{250 * 365 * 24 * time.Hour, time.Duration(math.MaxInt64), time.Duration(math.MaxInt64) - 1, 100 * 365 * 24 * time.Hour}).Draw(t, "long-ttl")
		}
		if regime == "boundary" && (capIn <= 0 || capIn > 5) {
			capIn = 3
		}
		c := cache.NewLRUCache(capIn, ttl)
		capEff := c.Capacity()
		if capEff <= 0 {
			t.Fatalf("Capacity() = %d for requested %d: no positive default in force", capEff, capIn)
		}
		// the statement does not fix the default's value (100 today), only that there is ONE default that
		// replaces every non-positive request (a hard-coded 100 here was a false alarm against a tree whose
		// default had been raised; DESIGN section 10)
		if capIn <= 0 {
			if d0, d1 := cache.NewLRUCache(0, ttl).Capacity(), cache.NewLRUCache(-1, ttl).Capacity(); capEff != d0 || capEff != d1 {
				t.Fatalf("Capacity() = %d for requested %d, %d for requested 0, %d for requested -1: non-positive capacities are replaced by one default", capEff, capIn, d0, d1)
			}
		}
		if capIn > 0 && capEff != capIn {
			t.Fatalf("Capacity() = %d, requested %d", capEff, capIn)
		}
		m := &lruModel{cap: capEff, ttl: ttl}
		wide := capEff > 5 // large capacity: use a wide key pool so the bound is reachable
		keyGen := rapid.SampledFrom([]string{"a", "b", "c", "d", "e", "f"})
		if regime == "boundary" {
			keyGen = rapid.SampledFrom([]string{"a", "b", "c"}) // few keys: reads must revisit stored entries as time passes
		}
		if wide {
			keyGen = rapid.Custom(func(t *rapid.T) string { return fmt.Sprintf("k%d", rapid.IntRange(0, capEff+30).Draw(t, "ki")) })
		}
		sleepGen := rapid.SampledFrom([]time.Duration{8 * time.Millisecond, 4 * time.Millisecond, 13 * time.Millisecond, 26 * time.Millisecond})
		n := 0
		var steps []lruStep
		pre := func() {
			if regime == "elapsed" {
				time.Sleep(2 * time.Microsecond)
			}
		}
		lastPut := map[string]int{}
		acts := map[string]func(*rapid.T){
			"put": func(t *rapid.T) {
				pre()
				k := keyGen.Draw(t, "k")
				n++
				v := n
				if old, ok := lastPut[k]; ok && rapid.IntRange(0, 3).Draw(t, "same-value") == 0 {
					v = old // writing the value that is already stored is still a write: it refreshes recency
				}
				lastPut[k] = v
				t0 := time.Now()
				if rapid.IntRange(0, 9).Draw(t, "nil-value") == 0 {
					v = nilValue // nil is a value like any other: stored, returned, counted (the model marks it with a sentinel)
					lastPut[k] = v
				}
				if v == nilValue {
					c.Put(k, nil)
				} else {
					c.Put(k, v)
				}
				t1 := time.Now()
				m.put(k, v, t0, t1)
				steps = append(steps, lruStep{"put", k, ""})
			},
			"putMany": func(t *rapid.T) {
				pre()
				start := rapid.IntRange(0, capEff+30).Draw(t, "start")
				cnt := rapid.IntRange(1, capEff+10).Draw(t, "count")
				for i := 0; i < cnt; i++ {
					k := fmt.Sprintf("k%d", (start+i)%(capEff+31))
					n++
					t0 := time.Now()
					c.Put(k, n)
					t1 := time.Now()
					m.put(k, n, t0, t1)
				}
				steps = append(steps, lruStep{"putMany", fmt.Sprintf("k%d+%d", start, cnt), ""})
			},
			"get": func(t *rapid.T) {
				pre()
				k := keyGen.Draw(t, "k")
				t0 := time.Now()
				v, ok := c.Get(k)
				t1 := time.Now()
				i := m.find(k)
				steps = append(steps, lruStep{"get", k, fmt.Sprint(ok)})
				if i < 0 {
					if ok {
						t.Fatalf("get(%q) hit with value %v but the key is absent (never stored, deleted, evicted or cleared); steps=%v", k, v, steps)
					}
					m.misses++
					return
				}
				e := m.ents[i]
				switch {
				case m.mustMiss(e, t0) && ok:
					t.Fatalf("get(%q) returned a value stored at least %v ago, lifetime %v; steps=%v", k, t0.Sub(e.lastMax), ttl, steps)
				case m.mustHit(e, t1) && !ok:
					t.Fatalf("get(%q) missed although the key is present and within its lifetime (cap=%d ttl=%v); steps=%v", k, capEff, ttl, steps)
				}
				if ok {
					if e.val == nilValue {
						if v != nil {
							t.Fatalf("get(%q) = %v, want the nil that was stored most recently; steps=%v", k, v, steps)
						}
					} else if vi, isInt := v.(int); !isInt || vi != e.val {
						t.Fatalf("get(%q) = %v, want most recently stored value %d; steps=%v", k, v, e.val, steps)
					}
					m.toFront(i)
					m.hits++
				} else {
					m.remove(i) // expired entry dropped by the lookup
					m.misses++
					m.expired++
				}
			},
			"delete": func(t *rapid.T) {
				pre()
				k := keyGen.Draw(t, "k")
				ok := c.Delete(k)
				i := m.find(k)
				steps = append(steps, lruStep{"delete", k, fmt.Sprint(ok)})
				if (i >= 0) != ok {
					t.Fatalf("delete(%q) = %v, model has key: %v; steps=%v", k, ok, i >= 0, steps)
				}
				if ok {
					m.remove(i)
				}
			},
			"clear": func(t *rapid.T) {
				c.Clear()
				m.ents, m.hits, m.misses, m.evicts = nil, 0, 0, 0
				steps = append(steps, lruStep{"clear", "", ""})
			},
			"sleep": func(t *rapid.T) {
				d := sleepGen.Draw(t, "d")
				time.Sleep(d)
				steps = append(steps, lruStep{"sleep", d.String(), ""})
			},
			"sweep": func(t *rapid.T) {
				pre()
				before := map[string]bool{}
				for _, k := range c.Keys() {
					before[k] = true
				}
				removed := c.CleanupExpired()
				t1 := time.Now()
				after := map[string]bool{}
				for _, k := range c.Keys() {
					after[k] = true
				}
				steps = append(steps, lruStep{"sweep", "", fmt.Sprint(removed)})
				gone := 0
				for k := range before {
					if after[k] {
						continue
					}
					gone++
					i := m.find(k)
					if i < 0 {
						t.Fatalf("sweep: cache held key %q unknown to the model; steps=%v", k, steps)
					}
					if !m.mayBeExpired(m.ents[i], t1) {
						t.Fatalf("sweep removed %q which is not expired (first stored <= %v ago, lifetime %v); steps=%v", k, t1.Sub(m.ents[i].firstMin), ttl, steps)
					}
					m.remove(i)
					m.expired++
				}
				for k := range after {
					if !before[k] {
						t.Fatalf("sweep added key %q; steps=%v", k, steps)
					}
				}
				if removed != gone {
					t.Fatalf("sweep returned %d but %d keys disappeared; steps=%v", removed, gone, steps)
				}
			},
			"": func(t *rapid.T) {
				sz := c.Size()
				if sz > capEff {
					t.Fatalf("size %d exceeds capacity %d; steps=%v", sz, capEff, steps)
				}
				if sz != len(m.ents) {
					t.Fatalf("size %d, model %d (keys %v vs %v); steps=%v", sz, len(m.ents), c.Keys(), m.keys(), steps)
				}
				ks := c.Keys()
				sort.Strings(ks)
				mk := m.keys()
				if fmt.Sprint(ks) != fmt.Sprint(mk) {
					t.Fatalf("keys %v, model %v (wrong victim or lost entry); steps=%v", ks, mk, steps)
				}
				s := c.Stats()
				wantRatio := 0.0
				if m.hits+m.misses > 0 {
					wantRatio = float64(m.hits) / float64(m.hits+m.misses)
				}
				if s.Hits != m.hits || s.Misses != m.misses || s.Evictions != m.evicts || s.Size != len(m.ents) || s.Capacity != capEff || s.HitRatio != wantRatio {
					t.Fatalf("stats %+v, model hits=%d misses=%d evictions=%d size=%d cap=%d ratio=%v; steps=%v", s, m.hits, m.misses, m.evicts, len(m.ents), capEff, wantRatio, steps)
				}
			},
		}
		// weight the action mix: rapid picks uniformly among names, so frequent
		// operations are registered several times and rare ones share one slot.
		rare := []string{"sweep", "sweep", "clear", "delete"}
		if regime == "boundary" {
			rare = append(rare, "sleep", "sleep", "sleep")
		}
		if wide {
			rare = append(rare, "putMany", "putMany", "putMany")
		}
		if regime == "boundary" {
			if rapid.IntRange(0, 2).Draw(t, "sweep-prelude") == 0 {
				// a sweep that finds entries of different ages in an order of use that is not their order of
				// creation: store, wait, store, read or rewrite (often the older one), wait, sweep - the waits
				// and keys are drawn, so the entry used last is sometimes expired while a younger one is not
				allKeys, allSleeps := keyGen, sleepGen
				older, younger := "a", "b"
				for i, a := range []string{"put", "sleep", "put", rapid.SampledFrom([]string{"get", "get", "put"}).Draw(t, "prelude-touch"), "sleep", "sweep", ""} {
					keyGen = rapid.Just(older)
					if i == 2 || (i == 3 && rapid.IntRange(0, 3).Draw(t, "prelude-touch-younger") == 0) {
						keyGen = rapid.Just(younger)
					}
					sleepGen = rapid.SampledFrom([]time.Duration{13 * time.Millisecond, 8 * time.Millisecond, 13 * time.Millisecond, 4 * time.Millisecond, 17 * time.Millisecond})
					acts[a](t)
				}
				keyGen, sleepGen = allKeys, allSleeps
			}
			// time is the subject here: sleeping must be as common as reading and writing
			t.Repeat(map[string]func(*rapid.T){
				"": acts[""], "put": acts["put"], "put2": acts["put"], "get": acts["get"], "get2": acts["get"], "get3": acts["get"],
				"sleep": acts["sleep"], "sleep2": acts["sleep"], "sleep3": acts["sleep"],
				"rare": func(t *rapid.T) {
					acts[rapid.SampledFrom([]string{"sweep", "sweep", "delete", "clear"}).Draw(t, "rare-op")](t)
				},
			})
		} else {
			t.Repeat(c12Weighted(acts, rare))
		}
		nontrivial := m.recency > 0 || m.expired > 0
		labels := []string{"regime:" + regime}
		if m.recency > 0 {
			labels = append(labels, "eviction-with-recency")
		}
		if m.expired > 0 {
			labels = append(labels, "expiry-observed")
		}
		if capIn <= 0 {
			labels = append(labels, "default-capacity")
		}
		if len(steps) > 60 {
			steps = append(steps[:60], lruStep{Op: fmt.Sprintf("... %d more", len(steps)-60)})
		}
		rec.Case(nontrivial, map[string]any{"cap": capIn, "regime": regime, "steps": steps}, labels...)
	}
}

func c12Weighted(acts map[string]func(*rapid.T), rare []string) map[string]func(*rapid.T) {
	return map[string]func(*rapid.T){
		"":    acts[""],
		"put": acts["put"], "put2": acts["put"], "put3": acts["put"],
		"get": acts["get"], "get2": acts["get"], "get3": acts["get"],
		"delete": acts["delete"],
		"rare":   func(t *rapid.T) { acts[rapid.SampledFrom(rare).Draw(t, "rare-op")](t) },
	}
}

func TestC12_Model(t *testing.T) {
	stat.For("C12").RequireShare("eviction-with-recency", 0.08)
	rapid.Check(t, lruProperty([]string{"unlimited", "long", "elapsed", "centuries"}))
}

func TestC12_Timed(t *testing.T) {
	rapid.Check(t, lruProperty([]string{"boundary"}))
}

// ---- the search-result cache built on the LRU (internal/cache/search_cache.go) ----------

type scEntry struct {
	key string
	val []cache.SearchResult
}

// scKey is the request identity the statement implies: the query up to letter case, and
// every option field (two requests that differ in any of them are different requests).
func scKey(q string, o cache.SearchOptions) string {
	return fmt.Sprintf("%q|%+v", strings.ToLower(q), o)
}

func TestC12_SearchCache(t *testing.T) {
	rec := stat.For("C12")
	rec.Rule("search-result cache (SearchCache over the LRU): capacity 1-4, state machine put(query, options, results) / get / invalidate / enable(on|off) / size / stats over 4 queries x case variants x 3 option sets, compared with a reference LRU keyed by (query up to case, options). Oracle: get returns exactly the stored list (or a miss), never more than capacity entries, LRU victim, nothing stored or served while disabled, empty result lists are not stored.")
	rapid.Check(t, func(t *rapid.T) {
		capacity := rapid.IntRange(1, 4).Draw(t, "cap")
		sc := cache.NewSearchCache(capacity, 0)
		var model []scEntry // index 0 = most recently used
		find := func(k string) int {
			for i := range model {
				if model[i].key == k {
					return i
				}
			}
			return -1
		}
		front := func(i int) {
			e := model[i]
			copy(model[1:i+1], model[:i])
			model[0] = e
		}
		enabled := true
		queries := []string{"find files", "git commit", "tar", "list all"}
		opts := []cache.SearchOptions{{Limit: 5}, {Limit: 10}, {Limit: 5, UseNLP: true, Platforms: []string{"linux"}}}
		draw := func(t *rapid.T) (string, cache.SearchOptions) {
			q := rapid.SampledFrom(queries).Draw(t, "q")
			if rapid.Bool().Draw(t, "upper") {
				q = strings.ToUpper(q)
			}
			return q, rapid.SampledFrom(opts).Draw(t, "o")
		}
		n := 0
		var steps []string
		evictions := 0
		t.Repeat(map[string]func(*rapid.T){
			"put": func(t *rapid.T) {
				q, o := draw(t)
				n++
				var res []cache.SearchResult
				stamp := n
				if rapid.IntRange(0, 3).Draw(t, "same-results") == 0 && n > 1 {
					stamp = rapid.IntRange(1, n-1).Draw(t, "earlier") // a result list equal to one stored before
				}
				for i := rapid.IntRange(0, 3).Draw(t, "nres"); i > 0; i-- {
					res = append(res, cache.SearchResult{Command: fmt.Sprintf("c%d-%d", stamp, i), Score: float64(stamp)})
				}
				sc.Put(q, o, res)
				steps = append(steps, fmt.Sprintf("put(%q,%d results)", q, len(res)))
				if !enabled || len(res) == 0 {
					return
				}
				k := scKey(q, o)
				if i := find(k); i >= 0 {
					model[i].val = res
					front(i)
				} else {
					model = append([]scEntry{{k, res}}, model...)
					if len(model) > capacity {
						model = model[:capacity]
						evictions++
					}
				}
			},
			"get": func(t *rapid.T) {
				q, o := draw(t)
				got, ok := sc.Get(q, o)
				steps = append(steps, fmt.Sprintf("get(%q)=%v", q, ok))
				i := find(scKey(q, o))
				want := enabled && i >= 0
				if ok != want {
					t.Fatalf("get(%q, %+v) found=%v, reference says %v (enabled=%v); steps=%v", q, o, ok, want, enabled, steps)
				}
				if ok {
					if fmt.Sprint(got) != fmt.Sprint(model[i].val) {
						t.Fatalf("get(%q) returned %v, stored %v; steps=%v", q, got, model[i].val, steps)
					}
					front(i)
				}
			},
			"invalidate": func(t *rapid.T) {
				sc.Invalidate()
				model = nil
				steps = append(steps, "invalidate")
			},
			"enable": func(t *rapid.T) {
				enabled = rapid.Bool().Draw(t, "on")
				sc.Enable(enabled)
				if sc.IsEnabled() != enabled {
					t.Fatalf("IsEnabled()=%v after Enable(%v)", sc.IsEnabled(), enabled)
				}
				steps = append(steps, fmt.Sprintf("enable(%v)", enabled))
			},
			"": func(t *rapid.T) {
				if sc.Size() != len(model) || sc.Size() > capacity {
					t.Fatalf("size %d, reference %d, capacity %d; steps=%v", sc.Size(), len(model), capacity, steps)
				}
				if s := sc.Stats(); s.Size != len(model) || s.Capacity != capacity {
					t.Fatalf("stats %+v, reference size %d capacity %d; steps=%v", s, len(model), capacity, steps)
				}
			},
		})
		rec.Case(evictions > 0, map[string]any{"search_cache": true, "cap": capacity, "steps": steps}, "search-cache")
	})
}
