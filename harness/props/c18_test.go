package props

import (
	"fmt"
	"math"
	"sort"
	"strings"
	"sync"
	"testing"
	"time"

	"github.com/Vedant9500/WTF/internal/database"
	"github.com/Vedant9500/WTF/internal/metrics"
	"github.com/Vedant9500/WTF/verifharness/gen"
	"github.com/Vedant9500/WTF/verifharness/stat"
	"pgregory.net/rapid"
)

// C18 — metrics are keyed by identity and account for every event.

var c18Name = rapid.StringMatching(`[a-z_]{1,8}`)
var c18Val = rapid.OneOf(rapid.StringMatching(`[a-zA-Z0-9_./ -]{0,6}`), rapid.SampledFrom([]string{"true", "false", "load", "GET", ""}))

func c18Tags(t *rapid.T) map[string]string {
	n := rapid.IntRange(0, 5).Draw(t, "ntags")
	if n == 0 {
		if rapid.Bool().Draw(t, "nil-tags") {
			return nil
		}
		return map[string]string{}
	}
	keys := rapid.SliceOfNDistinct(c18Name, n, n, func(s string) string { return s }).Draw(t, "tag-keys")
	m := map[string]string{}
	for _, k := range keys {
		m[k] = c18Val.Draw(t, "tag-val")
		// tag names are case-sensitive identities: "host" and "Host" are two tags of one series
		if rapid.IntRange(0, 3).Draw(t, "case-twin") == 0 {
			m[strings.ToUpper(k[:1])+k[1:]] = c18Val.Draw(t, "twin-val")
			if rapid.Bool().Draw(t, "upper-twin") {
				m[strings.ToUpper(k)] = c18Val.Draw(t, "twin-val2")
			}
		}
	}
	return m
}

// rebuilt returns an equal map built in another insertion order.
func rebuilt(m map[string]string, rot int) map[string]string {
	if len(m) == 0 {
		// "no tags" has two spellings, nil and an empty map: one identity
		if rot%2 == 0 {
			return nil
		}
		return map[string]string{}
	}
	keys := make([]string, 0, len(m))
	for k := range m {
		keys = append(keys, k)
	}
	sort.Strings(keys)
	out := make(map[string]string, len(m))
	for i := range keys {
		k := keys[(i+rot)%len(keys)]
		out[k] = m[k]
	}
	return out
}

func TestC18_Identity(t *testing.T) {
	rec := stat.For("C18")
	rec.Rule("metric names and tag maps (0-5 tags, alphabet without ':' and '=') requested 8 times each with equal maps rebuilt in different insertion orders, for counters, gauges, histograms and timers; generated record sequences. Oracle: same pointer every time; counter value == increments; histogram Count == observations, Sum exact (integer observations), Percentile non-decreasing in p; exactly one series per identity in GetAllMetrics. Non-trivial = a series with >=2 tags requested >=2 times.")
	rapid.Check(t, func(t *rapid.T) {
		c := metrics.NewCollector()
		nSeries := rapid.IntRange(1, 4).Draw(t, "series")
		type series struct {
			name string
			tags map[string]string
			incs int64
		}
		var all []series
		maxTags := 0
		for s := 0; s < nSeries; s++ {
			se := series{name: c18Name.Draw(t, "name"), tags: c18Tags(t)}
			dup := false
			for _, o := range all {
				if o.name == se.name {
					dup = true
				}
			}
			if dup {
				continue
			}
			if len(se.tags) > maxTags {
				maxTags = len(se.tags)
			}
			first := c.Counter(se.name, se.tags)
			g0, h0, t0 := c.Gauge(se.name, se.tags), c.Histogram(se.name, se.tags), c.Timer(se.name, se.tags)
			for rep := 0; rep < 8; rep++ {
				tg := rebuilt(se.tags, rep)
				p := c.Counter(se.name, tg)
				if p != first {
					t.Fatalf("Counter(%q, %v) returned a different metric on request %d: one identity, two series", se.name, se.tags, rep+2)
				}
				if c.Gauge(se.name, tg) != g0 || c.Histogram(se.name, tg) != h0 || c.Timer(se.name, tg) != t0 {
					t.Fatalf("Gauge/Histogram/Timer(%q, %v) returned a different metric on request %d", se.name, se.tags, rep+2)
				}
				k := rapid.IntRange(0, 3).Draw(t, "incs")
				for i := 0; i < k; i++ {
					p.Inc()
				}
				se.incs += int64(k)
				if a := rapid.IntRange(0, 5).Draw(t, "add"); a > 0 {
					p.Add(int64(a))
					se.incs += int64(a)
				}
			}
			if first.Value() != se.incs {
				t.Fatalf("counter %q%v = %d after %d increments", se.name, se.tags, first.Value(), se.incs)
			}
			all = append(all, se)
		}
		// one series per identity in the export
		count := map[string]int{}
		for _, m := range c.GetAllMetrics() {
			if m.Type == metrics.MetricTypeCounter {
				count[fmt.Sprintf("%s|%v", m.Name, sortedTags(m.Tags))]++
			}
		}
		for _, se := range all {
			k := fmt.Sprintf("%s|%v", se.name, sortedTags(se.tags))
			if count[k] != 1 {
				t.Fatalf("identity %s is exported as %d counter series", k, count[k])
			}
		}
		// histogram accounting
		h := c.Histogram("obs", map[string]string{"a": "1", "b": "2"})
		obs := rapid.SliceOfN(rapid.OneOf(rapid.IntRange(0, 20000), rapid.IntRange(0, 12)), 0, 60).Draw(t, "obs")
		sum := 0
		for i, o := range obs {
			c.Histogram("obs", rebuilt(map[string]string{"a": "1", "b": "2"}, i)).Observe(float64(o))
			sum += o
		}
		if h.Count() != int64(len(obs)) || h.Sum() != float64(sum) {
			t.Fatalf("histogram reports count=%d sum=%v after %d observations summing to %d", h.Count(), h.Sum(), len(obs), sum)
		}
		// huge observations: once the running total passes the largest float64 (or +Inf itself is
		// observed) the sum is +Inf and stays +Inf - never NaN, never finite again
		hh := c.Histogram("huge", nil)
		hugeObs := rapid.SliceOfN(rapid.SampledFrom([]float64{math.MaxFloat64, math.MaxFloat64 / 2, math.Inf(1), 1e308, 1, 0, 12345}), 0, 6).Draw(t, "huge-obs")
		overflow, run := false, 0.0
		for _, o := range hugeObs {
			hh.Observe(o)
			run += o
			if math.IsInf(run, 1) {
				overflow = true
			}
			if hh.Count() <= 0 {
				t.Fatalf("histogram count %d after observing %v", hh.Count(), hugeObs)
			}
			if got := hh.Sum(); overflow && !math.IsInf(got, 1) {
				t.Fatalf("histogram sum is %v after observing %v: the total exceeds the largest float64, the sum is +Inf", got, hugeObs)
			} else if !overflow && got != run {
				t.Fatalf("histogram sum is %v after observing %v, want %v", got, hugeObs, run)
			}
		}
		if hh.Count() != int64(len(hugeObs)) {
			t.Fatalf("histogram count %d after %d observations", hh.Count(), len(hugeObs))
		}
		ps := rapid.SliceOfN(rapid.OneOf(rapid.Float64Range(0, 100), rapid.SampledFrom([]float64{0, 1, 50, 90, 95, 99, 99.9, 100})), 2, 8).Draw(t, "ps")
		sort.Float64s(ps)
		prev := -1.0
		for _, p := range ps {
			v := h.Percentile(p)
			if v < prev {
				t.Fatalf("percentile decreases: P(%v)=%v after %v; observations=%v", p, v, prev, obs)
			}
			prev = v
		}
		rec.Case(maxTags >= 2, map[string]any{"series": len(all), "max_tags": maxTags, "observations": len(obs)}, "identity", fmt.Sprintf("max-tags:%d", maxTags))
	})
}

func sortedTags(m map[string]string) []string {
	out := make([]string, 0, len(m))
	for k, v := range m {
		out = append(out, k+"="+v)
	}
	sort.Strings(out)
	return out
}

// monitorTotals reads the exported metrics of a monitor and sums the named counters.
func monitorTotals(pm *metrics.PerformanceMonitor) (sum map[string]float64, series map[string]int) {
	sum, series = map[string]float64{}, map[string]int{}
	for _, m := range pm.GetPerformanceReport().ApplicationMetrics {
		sum[m.Name] += m.Value
		series[fmt.Sprintf("%s|%v", m.Name, sortedTags(m.Tags))]++
	}
	return
}

func TestC18_Monitor(t *testing.T) {
	rec := stat.For("C18")
	rec.Rule("monitor: generated sequences of RecordSearchOperation / RecordDatabaseOperation. Oracle: searches_total summed over its series == n, cache_hits_total + cache_misses_total == n, query_length_count == n, exactly one database_operations_total series per (operation, success) with value == its count.")
	rapid.Check(t, func(t *rapid.T) {
		pm := metrics.NewPerformanceMonitor()
		nSearch := rapid.IntRange(0, 30).Draw(t, "searches")
		hits := 0
		for i := 0; i < nSearch; i++ {
			hit := rapid.Bool().Draw(t, "hit")
			if hit {
				hits++
			}
			pm.RecordSearchOperation(time.Duration(rapid.IntRange(0, 5000).Draw(t, "us"))*time.Microsecond, rapid.IntRange(0, 10).Draw(t, "results"), hit, rapid.IntRange(0, 1000).Draw(t, "qlen"))
		}
		type key struct {
			op string
			ok bool
		}
		want := map[key]int{}
		nOps := rapid.IntRange(0, 30).Draw(t, "ops")
		for i := 0; i < nOps; i++ {
			k := key{rapid.SampledFrom([]string{"load", "save", "index", "x y"}).Draw(t, "op"), rapid.Bool().Draw(t, "ok")}
			want[k]++
			pm.RecordDatabaseOperation(k.op, time.Millisecond, k.ok)
		}
		sum, series := monitorTotals(pm)
		if int(sum["searches_total"]) != nSearch {
			t.Fatalf("searches_total sums to %v after %d recorded searches", sum["searches_total"], nSearch)
		}
		if int(sum["cache_hits_total"]+sum["cache_misses_total"]) != nSearch || int(sum["cache_hits_total"]) != hits {
			t.Fatalf("cache hits %v + misses %v after %d searches (%d hits)", sum["cache_hits_total"], sum["cache_misses_total"], nSearch, hits)
		}
		if int(sum["query_length_count"]) != nSearch {
			t.Fatalf("query_length_count = %v after %d searches", sum["query_length_count"], nSearch)
		}
		if int(sum["database_operations_total"]) != nOps {
			t.Fatalf("database_operations_total sums to %v after %d operations", sum["database_operations_total"], nOps)
		}
		for k, n := range want {
			id := fmt.Sprintf("database_operations_total|%v", sortedTags(map[string]string{"operation": k.op, "success": fmt.Sprint(k.ok)}))
			if series[id] != 1 {
				t.Fatalf("identity %s is exported as %d series (recorded %d times)", id, series[id], n)
			}
		}
		rec.Case(nOps >= 2, map[string]any{"searches": nSearch, "operations": nOps, "op_identities": len(want)}, "monitor")
	})
}

// TestC18_Concurrent: G goroutines record on shared series (run with -race).
func TestC18_Concurrent(t *testing.T) {
	rec := stat.For("C18")
	rec.Rule("concurrent: G goroutines x K events on shared counter / histogram / monitor series, under the race detector. Oracle: totals equal G*K, one series per identity.")
	rapid.Check(t, func(t *rapid.T) {
		g := rapid.IntRange(2, 12).Draw(t, "goroutines")
		k := rapid.IntRange(5, 60).Draw(t, "events")
		c := metrics.NewCollector()
		pm := metrics.NewPerformanceMonitor()
		tags := map[string]string{"a": "1", "b": "2", "c": "3"}
		bigObs := []float64{20000, 1e6, 50000, 10001, 9999, 1e9, 12000, 3}
		var wg sync.WaitGroup
		for i := 0; i < g; i++ {
			wg.Add(1)
			go func(i int) {
				defer wg.Done()
				for j := 0; j < k; j++ {
					c.Counter("shared", rebuilt(tags, i+j)).Inc()
					c.Histogram("h", rebuilt(tags, j)).Observe(float64(j % 7))
					c.Histogram("big", rebuilt(tags, j)).Observe(bigObs[(i+j)%len(bigObs)]) // mostly beyond the top bucket boundary
					pm.RecordSearchOperation(time.Millisecond, j, (i+j)%2 == 0, j)
					pm.RecordDatabaseOperation("load", time.Millisecond, j%3 == 0)
					if j%5 == 0 {
						c.GetAllMetrics()
					}
				}
			}(i)
		}
		wg.Wait()
		n := int64(g * k)
		if hb := c.Histogram("big", tags); hb.Count() != n {
			t.Fatalf("histogram of large values counts %d after %d concurrent observations", hb.Count(), n)
		} else {
			prev := math.Inf(-1)
			for _, p := range []float64{0, 1, 10, 50, 90, 99, 99.9, 99.99, 100} {
				v := hb.Percentile(p)
				if v < prev {
					t.Fatalf("after %d concurrent observations of large values Percentile(%v) = %v, below the %v of a lower percentile", n, p, v, prev)
				}
				prev = v
			}
		}
		if v := c.Counter("shared", tags).Value(); v != n {
			t.Fatalf("shared counter = %d after %d concurrent increments", v, n)
		}
		if v := c.Histogram("h", tags).Count(); v != n {
			t.Fatalf("shared histogram count = %d after %d concurrent observations", v, n)
		}
		sum, _ := monitorTotals(pm)
		if int64(sum["searches_total"]) != n || int64(sum["cache_hits_total"]+sum["cache_misses_total"]) != n || int64(sum["query_length_count"]) != n || int64(sum["database_operations_total"]) != n {
			t.Fatalf("monitor totals after %d concurrent events: %v", n, sum)
		}
		rec.Case(true, map[string]any{"goroutines": g, "events_each": k}, "concurrent")
	})
}

// TestC18_Wrapper: the monitoring wrapper of the database records every search made through
// it while monitoring is on - whatever the state of the result cache - and every load.
func TestC18_Wrapper(t *testing.T) {
	rec := stat.For("C18")
	rec.Rule("monitoring wrapper: state machine over MonitoredDatabase - monitored searches (both entry points), cache on/off, cache invalidation, monitoring on/off, monitored loads. Oracle: searches_total, hits+misses and query_length_count equal the number of monitored searches made while monitoring was on; database_operations_total equals the loads made while it was on.")
	rapid.Check(t, func(t *rapid.T) {
		cmds := c05DB(t, "cmds")
		mdb := database.NewMonitoredDatabase(gen.Load(t, cmds))
		toks := gen.Tokens(cmds)
		if len(toks) == 0 {
			toks = []string{"find"}
		}
		searches, loads := 0, 0
		monitoring, caching := true, true
		var steps []string
		t.Repeat(map[string]func(*rapid.T){
			"search": func(t *rapid.T) {
				q := rapid.SampledFrom(toks).Draw(t, "q")
				if rapid.Bool().Draw(t, "simple") {
					mdb.SearchWithMonitoring(q, rapid.IntRange(0, 5).Draw(t, "limit"))
				} else {
					mdb.SearchWithOptionsAndMonitoring(q, database.SearchOptions{Limit: 5, UseNLP: rapid.Bool().Draw(t, "nlp"), UseFuzzy: true})
				}
				if monitoring {
					searches++
				}
				steps = append(steps, "search")
			},
			"cache": func(t *rapid.T) {
				caching = rapid.Bool().Draw(t, "on")
				mdb.EnableCache(caching)
				steps = append(steps, fmt.Sprintf("cache(%v)", caching))
			},
			"invalidate": func(t *rapid.T) {
				mdb.InvalidateCache()
				steps = append(steps, "invalidate")
			},
			"monitoring": func(t *rapid.T) {
				monitoring = rapid.IntRange(0, 3).Draw(t, "on") > 0
				mdb.EnableMonitoring(monitoring)
				if mdb.IsMonitoringEnabled() != monitoring {
					t.Fatalf("IsMonitoringEnabled()=%v after EnableMonitoring(%v)", mdb.IsMonitoringEnabled(), monitoring)
				}
				steps = append(steps, fmt.Sprintf("monitoring(%v)", monitoring))
			},
			"load": func(t *rapid.T) {
				if err := mdb.LoadDatabaseWithMonitoring(gen.Load(t, c05DB(t, "cmds2")).Commands); err != nil {
					t.Fatalf("LoadDatabaseWithMonitoring: %v", err)
				}
				if monitoring {
					loads++
				}
				steps = append(steps, "load")
			},
			"": func(t *rapid.T) {
				sum := map[string]float64{}
				for _, m := range mdb.GetPerformanceReport().ApplicationMetrics {
					sum[m.Name] += m.Value
				}
				if int(sum["searches_total"]) != searches || int(sum["cache_hits_total"]+sum["cache_misses_total"]) != searches || int(sum["query_length_count"]) != searches {
					t.Fatalf("after %d monitored searches: searches_total=%v hits+misses=%v query_length_count=%v (cache on=%v, monitoring on=%v); steps=%v", searches, sum["searches_total"], sum["cache_hits_total"]+sum["cache_misses_total"], sum["query_length_count"], caching, monitoring, steps)
				}
				if int(sum["database_operations_total"]) != loads {
					t.Fatalf("after %d monitored loads: database_operations_total=%v; steps=%v", loads, sum["database_operations_total"], steps)
				}
			},
		})
		rec.Case(searches >= 2, map[string]any{"wrapper": true, "searches": searches, "loads": loads, "steps": len(steps)}, "wrapper")
	})
}

// TestC18_Accessors: every way of reaching a series - the collector's methods, the package-level
// default collector, timers, stand-alone histograms with buckets of their own - with resets in
// between, against a model keyed by identity.
func TestC18_Accessors(t *testing.T) {
	rec := stat.For("C18")
	rec.Rule("accessors: state machine over one collector (an own one, or the package-level default through DefaultCounter/DefaultGauge/DefaultHistogram/DefaultTimer/GetAllMetrics/ResetMetrics) and 2-5 identities, several of which share a name and differ in one tag value or one tag, or carry a name that looks like a derived series (x_duration, x_count, ...): counter inc/add/reset, gauge set/inc/dec/add, histogram observe, timer Time()/TimeFunc, collector reset; every lookup with the tag map rebuilt in another order. Oracle after every step: each identity's counter, gauge, histogram count/sum and timer count equal the model; the export holds exactly one counter, gauge and histogram series per identity, with the model's value (series the collector may add of its own accord are not counted); a timed function runs exactly once. Stand-alone histograms with 1-6 ascending buckets: count, sum, mean exact, percentiles non-decreasing. Non-trivial = two identities share a name and both were written, or a reset happened between writes.")
	rapid.Check(t, func(t *rapid.T) {
		useDefault := rapid.Bool().Draw(t, "default-collector")
		own := metrics.NewCollector()
		if useDefault {
			metrics.ResetMetrics()
		}
		counter := func(n string, tg map[string]string) *metrics.Counter {
			if useDefault {
				return metrics.DefaultCounter(n, tg)
			}
			return own.Counter(n, tg)
		}
		gauge := func(n string, tg map[string]string) *metrics.Gauge {
			if useDefault {
				return metrics.DefaultGauge(n, tg)
			}
			return own.Gauge(n, tg)
		}
		histogram := func(n string, tg map[string]string) *metrics.Histogram {
			if useDefault {
				return metrics.DefaultHistogram(n, tg)
			}
			return own.Histogram(n, tg)
		}
		timer := func(n string, tg map[string]string) *metrics.Timer {
			if useDefault {
				return metrics.DefaultTimer(n, tg)
			}
			return own.Timer(n, tg)
		}
		export := func() []metrics.Metric {
			if useDefault {
				return metrics.GetAllMetrics()
			}
			return own.GetAllMetrics()
		}
		type ident struct {
			name string
			tags map[string]string
		}
		type state struct {
			counter   int64
			gauge     int64
			obsN      int64
			obsSum    int64
			timed     int64
			written   bool
			afterWipe bool
		}
		idKey := func(id ident) string { return fmt.Sprintf("%s|%v", id.name, sortedTags(id.tags)) }
		var ids []ident
		seen := map[string]bool{}
		add := func(id ident) {
			if !seen[idKey(id)] {
				seen[idKey(id)] = true
				ids = append(ids, id)
			}
		}
		base := ident{c18Name.Draw(t, "name"), c18Tags(t)}
		add(base)
		for i := rapid.IntRange(1, 4).Draw(t, "more-identities"); i > 0; i-- {
			switch rapid.SampledFrom([]string{"other-name", "other-value", "one-more-tag", "one-tag-less", "no-tags", "derived-name"}).Draw(t, "relation") {
			case "derived-name":
				// a name that looks like a series the collector derives from another metric
				add(ident{base.name + rapid.SampledFrom([]string{"_duration", "_count", "_sum", "_mean", "_p50", "_duration_count"}).Draw(t, "suffix"), rebuilt(base.tags, 2)})
			case "other-name":
				add(ident{c18Name.Draw(t, "name2"), rebuilt(base.tags, 1)})
			case "other-value":
				tg := rebuilt(base.tags, 0)
				ks := make([]string, 0, len(tg))
				for k := range tg {
					ks = append(ks, k)
				}
				sort.Strings(ks)
				if len(ks) > 0 { // the identity differs from base in one value
					k := ks[rapid.IntRange(0, len(ks)-1).Draw(t, "changed-key")]
					tg[k] = tg[k] + "x"
				}
				add(ident{base.name, tg})
			case "one-more-tag":
				tg := map[string]string{}
				for k, v := range base.tags {
					tg[k] = v
				}
				tg["zz"+c18Name.Draw(t, "extra-key")] = c18Val.Draw(t, "extra-val")
				add(ident{base.name, tg})
			case "one-tag-less":
				tg := map[string]string{}
				ks := make([]string, 0, len(base.tags))
				for k := range base.tags {
					ks = append(ks, k)
				}
				sort.Strings(ks)
				if len(ks) > 0 {
					drop := ks[rapid.IntRange(0, len(ks)-1).Draw(t, "drop")]
					for k, v := range base.tags {
						if k != drop {
							tg[k] = v
						}
					}
				}
				add(ident{base.name, tg})
			default:
				add(ident{base.name, nil})
			}
		}
		ids = rapid.Permutation(ids).Draw(t, "identity-order")
		model := map[string]*state{}
		for _, id := range ids {
			model[idKey(id)] = &state{}
		}
		wiped, sharedWritten := false, false
		var steps []string
		pick := func(t *rapid.T) (ident, *state, map[string]string) {
			id := ids[rapid.IntRange(0, len(ids)-1).Draw(t, "identity")]
			return id, model[idKey(id)], rebuilt(id.tags, rapid.IntRange(0, 5).Draw(t, "tag-order"))
		}
		wrote := func(id ident, st *state) {
			st.written = true
			if wiped {
				st.afterWipe = true
			}
			for _, o := range ids {
				if o.name == id.name && idKey(o) != idKey(id) && model[idKey(o)].written {
					sharedWritten = true
				}
			}
		}
		t.Repeat(map[string]func(*rapid.T){
			"counter": func(t *rapid.T) {
				id, st, tg := pick(t)
				c := counter(id.name, tg)
				switch rapid.SampledFrom([]string{"inc", "inc", "add", "reset"}).Draw(t, "op") {
				case "inc":
					c.Inc()
					st.counter++
				case "add":
					k := rapid.Int64Range(0, 1000).Draw(t, "k")
					c.Add(k)
					st.counter += k
				default:
					c.Reset()
					st.counter = 0
				}
				steps = append(steps, "counter "+idKey(id))
				wrote(id, st)
			},
			"gauge": func(t *rapid.T) {
				id, st, tg := pick(t)
				g := gauge(id.name, tg)
				switch rapid.SampledFrom([]string{"set", "inc", "dec", "add"}).Draw(t, "op") {
				case "set":
					v := rapid.Int64Range(-1000, 1000).Draw(t, "v")
					g.Set(float64(v))
					st.gauge = v
				case "inc":
					g.Inc()
					st.gauge++
				case "dec":
					g.Dec()
					st.gauge--
				default:
					v := rapid.Int64Range(-50, 50).Draw(t, "v")
					g.Add(float64(v))
					st.gauge += v
				}
				steps = append(steps, "gauge "+idKey(id))
				wrote(id, st)
			},
			"observe": func(t *rapid.T) {
				id, st, tg := pick(t)
				v := rapid.Int64Range(0, 20000).Draw(t, "v")
				histogram(id.name, tg).Observe(float64(v))
				st.obsN++
				st.obsSum += v
				steps = append(steps, "observe "+idKey(id))
				wrote(id, st)
			},
			"time": func(t *rapid.T) {
				id, st, tg := pick(t)
				tm := timer(id.name, tg)
				if rapid.Bool().Draw(t, "time-func") {
					ran := 0
					tm.TimeFunc(func() { ran++ })
					if ran != 1 {
						t.Fatalf("TimeFunc ran the function %d times; steps=%v", ran, steps)
					}
				} else {
					stop := tm.Time()
					stop()
				}
				st.timed++
				steps = append(steps, "time "+idKey(id))
				wrote(id, st)
			},
			"reset-collector": func(t *rapid.T) {
				if useDefault {
					metrics.ResetMetrics()
				} else {
					own.Reset()
				}
				for k := range model {
					w := model[k].written
					model[k] = &state{}
					if w {
						wiped = true
					}
				}
				steps = append(steps, "reset-collector")
			},
			"": func(t *rapid.T) {
				for _, id := range ids {
					st := model[idKey(id)]
					tg := rebuilt(id.tags, len(steps))
					if v := counter(id.name, tg).Value(); v != st.counter {
						t.Fatalf("counter %s = %d, %d increments were applied to it; steps=%v", idKey(id), v, st.counter, steps)
					}
					if v := gauge(id.name, tg).Value(); v != float64(st.gauge) {
						t.Fatalf("gauge %s = %v, the operations applied to it give %d; steps=%v", idKey(id), v, st.gauge, steps)
					}
					h := histogram(id.name, tg)
					if h.Count() != st.obsN || h.Sum() != float64(st.obsSum) {
						t.Fatalf("histogram %s reports count=%d sum=%v, %d observations summing to %d were made; steps=%v", idKey(id), h.Count(), h.Sum(), st.obsN, st.obsSum, steps)
					}
					th := timer(id.name, tg).Histogram()
					if th.Count() != st.timed || th.Sum() < 0 {
						t.Fatalf("timer %s reports count=%d sum=%v after %d timed operations; steps=%v", idKey(id), th.Count(), th.Sum(), st.timed, steps)
					}
				}
				type cell struct {
					n    int
					v    float64
					vals map[float64]bool
				}
				seenC, seenG, seenH := map[string]*cell{}, map[string]*cell{}, map[string]*cell{}
				bump := func(m map[string]*cell, k string, v float64) {
					if m[k] == nil {
						m[k] = &cell{vals: map[float64]bool{}}
					}
					m[k].n++
					m[k].v = v
					m[k].vals[v] = true
				}
				for _, m := range export() {
					switch {
					case m.Type == metrics.MetricTypeCounter:
						bump(seenC, fmt.Sprintf("%s|%v", m.Name, sortedTags(m.Tags)), m.Value)
					case m.Type == metrics.MetricTypeGauge:
						bump(seenG, fmt.Sprintf("%s|%v", m.Name, sortedTags(m.Tags)), m.Value)
					case m.Type == metrics.MetricTypeHistogram && strings.HasSuffix(m.Name, "_count"):
						bump(seenH, fmt.Sprintf("%s|%v", strings.TrimSuffix(m.Name, "_count"), sortedTags(m.Tags)), m.Value)
					}
				}
				for _, id := range ids {
					st, k := model[idKey(id)], idKey(id)
					if c := seenC[k]; c == nil || c.n != 1 || c.v != float64(st.counter) {
						t.Fatalf("export: counter %s appears as %+v, want one series with value %d; steps=%v", k, c, st.counter, steps)
					}
					if c := seenG[k]; c == nil || c.n != 1 || c.v != float64(st.gauge) {
						t.Fatalf("export: gauge %s appears as %+v, want one series with value %d; steps=%v", k, c, st.gauge, steps)
					}
					// (an export may list further series under a histogram's name - the distribution of a timer called
					// <n> next to a histogram called <n>_duration, say; the statement is about the series of one
					// identity, so what is required is that ONE listed series carries every observation: a split
					// series shows as partial counts. "Exactly one entry" was a false alarm, DESIGN section 10)
					if c := seenH[k]; c == nil || !c.vals[float64(st.obsN)] {
						t.Fatalf("export: histogram %s appears as %+v, want a series with count %d; steps=%v", k, c, st.obsN, steps)
					}
				}
			},
		})
		// a stand-alone histogram with buckets of its own
		nb := rapid.IntRange(1, 6).Draw(t, "n-buckets")
		bs := rapid.SliceOfNDistinct(rapid.Float64Range(-100, 100000), nb, nb, func(f float64) float64 { return f }).Draw(t, "buckets")
		sort.Float64s(bs)
		sh := metrics.NewHistogramWithBuckets("own", bs, nil)
		obs := rapid.SliceOfN(rapid.Int64Range(-200, 200000), 0, 30).Draw(t, "own-observations")
		var sum int64
		for _, o := range obs {
			sh.Observe(float64(o))
			sum += o
		}
		if sh.Count() != int64(len(obs)) || sh.Sum() != float64(sum) {
			t.Fatalf("histogram with buckets %v reports count=%d sum=%v after %d observations summing to %d", bs, sh.Count(), sh.Sum(), len(obs), sum)
		}
		if len(obs) > 0 && sh.Mean() != float64(sum)/float64(len(obs)) {
			t.Fatalf("histogram with buckets %v: mean %v, want %v", bs, sh.Mean(), float64(sum)/float64(len(obs)))
		}
		prev := math.Inf(-1)
		for _, p := range []float64{0, 1, 10, 25, 50, 75, 90, 95, 99, 99.9, 100} {
			v := sh.Percentile(p)
			if v < prev {
				t.Fatalf("histogram with buckets %v, observations %v: P(%v)=%v is below the previous percentile %v", bs, obs, p, v, prev)
			}
			prev = v
		}
		if useDefault {
			metrics.ResetMetrics()
		}
		rec.Case(sharedWritten || wiped, map[string]any{"identities": len(ids), "default_collector": useDefault, "steps": len(steps), "own_buckets": bs}, "accessors", fmt.Sprintf("default-collector:%v", useDefault))
	})
}
