package props

import (
	"fmt"
	"math"
	"sort"
	"strings"
	"sync"
	"testing"
	"time"

	"github.com/Vedant9500/WTF/internal/database"
	"github.com/Vedant9500/WTF/internal/metrics"
	"github.com/Vedant9500/WTF/verifharness/gen"
	"github.com/Vedant9500/WTF/verifharness/stat"
	"pgregory.net/rapid"
)

// C18 — metrics are keyed by identity and account for every event.

var c18Name = rapid.StringMatching(`[a-z_]{1,8}`)
var c18Val = rapid.OneOf(rapid.StringMatching(`[a-zA-Z0-9_./ -]{0,6}`), rapid.SampledFrom([]string{"true", "false", "load", "GET", ""}))

func c18Tags(t *rapid.T) map[string]string {
	n := rapid.IntRange(0, 5).Draw(t, "ntags")
	if n == 0 {
		if rapid.Bool().Draw(t, "nil-tags") {
			return nil
		}
		return map[string]string{}
	}
	keys := rapid.SliceOfNDistinct(c18Name, n, n, func(s string) string { return s }).Draw(t, "tag-keys")
	m := map[string]string{}
	for _, k := range keys {
		m[k] = c18Val.Draw(t, "tag-val")
		// tag names are case-sensitive identities: "host" and "Host" are two tags of one series
		if rapid.IntRange(0, 3).Draw(t, "case-twin") == 0 {
			m[strings.ToUpper(k[:1])+k[1:]] = c18Val.Draw(t, "twin-val")
			if rapid.Bool().Draw(t, "upper-twin") {
				m[strings.ToUpper(k)] = c18Val.Draw(t, "twin-val2")
			}
		}
	}
	return m
}

// rebuilt returns an equal map built in another insertion order.
func rebuilt(m map[string]string, rot int) map[string]string {
	if len(m) == 0 {
		// "no tags" has two spellings, nil and an empty map: one identity
		if rot%2 == 0 {
			return nil
		}
		return map[string]string{}
	}
	keys := make([]string, 0, len(m))
	for k := range m {
		keys = append(keys, k)
	}
	sort.Strings(keys)
	out := make(map[string]string, len(m))
	for i := range keys {
		k := keys[(i+rot)%len(keys)]
		out[k] = m[k]
	}
	return out
}

func TestC18_Identity(t *testing.T) {
	rec := stat.For("C18")
	rec.Rule("metric names and tag maps (0-5 tags, alphabet without ':' and '=') requested 8 times each with equal maps rebuilt in different insertion orders, for counters, gauges, histograms and timers; generated record sequences. Oracle: same pointer every time; counter value == increments; histogram Count == observations, Sum exact (integer observations), Percentile non-decreasing in p; exactly one series per identity in GetAllMetrics. Non-trivial = a series with >=2 tags requested >=2 times.")
	rapid.Check(t, func(t *rapid.T) {
		c := metrics.NewCollector()
		nSeries := rapid.IntRange(1, 4).Draw(t, "series")
		type series struct {
			name string
			tags map[string]string
			incs int64
		}
		var all []series
		maxTags := 0
		for s := 0; s < nSeries; s++ {
			se := series{name: c18Name.Draw(t, "name"), tags: c18Tags(t)}
			dup := false
			for _, o := range all {
				if o.name == se.name {
					dup = true
				}
			}
			if dup {
				continue
			}
			if len(se.tags) > maxTags {
				maxTags = len(se.tags)
			}
			first := c.Counter(se.name, se.tags)
			g0, h0, t0 := c.Gauge(se.name, se.tags), c.Histogram(se.name, se.tags), c.Timer(se.name, se.tags)
			for rep := 0; rep < 8; rep++ {
				tg := rebuilt(se.tags, rep)
				p := c.Counter(se.name, tg)
				if p != first {
					t.Fatalf("Counter(%q, %v) returned a different metric on request %d: one identity, two series", se.name, se.tags, rep+2)
				}
				if c.Gauge(se.name, tg) != g0 || c.Histogram(se.name, tg) != h0 || c.Timer(se.name, tg) != t0 {
					t.Fatalf("Gauge/Histogram/Timer(%q, %v) returned a different metric on request %d", se.name, se.tags, rep+2)
				}
				k := rapid.IntRange(0, 3).Draw(t, "incs")
				for i := 0; i < k; i++ {
					p.Inc()
				}
				se.incs += int64(k)
				if a := rapid.IntRange(0, 5).Draw(t, "add"); a > 0 {
					p.Add(int64(a))
					se.incs += int64(a)
				}
			}
			if first.Value() != se.incs {
				t.Fatalf("counter %q%v = %d after %d increments", se.name, se.tags, first.Value(), se.incs)
			}
			all = append(all, se)
		}
		// one series per identity in the export
		count := map[string]int{}
		for _, m := range c.GetAllMetrics() {
			if m.Type == metrics.MetricTypeCounter {
				count[fmt.Sprintf("%s|%v", m.Name, sortedTags(m.Tags))]++
			}
		}
		for _, se := range all {
			k := fmt.Sprintf("%s|%v", se.name, sortedTags(se.tags))
			if count[k] != 1 {
				t.Fatalf("identity %s is exported as %d counter series", k, count[k])
			}
		}
		// histogram accounting
		h := c.Histogram("obs", map[string]string{"a": "1", "b": "2"})
		obs := rapid.SliceOfN(rapid.OneOf(rapid.IntRange(0, 20000), rapid.IntRange(0, 12)), 0, 60).Draw(t, "obs")
		sum := 0
		for i, o := range obs {
			c.Histogram("obs", rebuilt(map[string]string{"a": "1", "b": "2"}, i)).Observe(float64(o))
			sum += o
		}
		if h.Count() != int64(len(obs)) || h.Sum() != float64(sum) {
			t.Fatalf("histogram reports count=%d sum=%v after %d observations summing to %d", h.Count(), h.Sum(), len(obs), sum)
		}
		// huge observations: once the running total passes the largest float64 (or +Inf itself is
		// observed) the sum is +Inf and stays +Inf - never NaN, never finite again
		hh := c.Histogram("huge", nil)
		hugeObs := rapid.SliceOfN(rapid.SampledFrom([]float64{math.MaxFloat64, math.MaxFloat64 / 2, math.Inf(1), 1e308, 1, 0, 12345}), 0, 6).Draw(t, "huge-obs")
		overflow, run := false, 0.0
		for _, o := range hugeObs {
			hh.Observe(o)
			run += o
			if math.IsInf(run, 1) {
				overflow = true
			}
			if hh.Count() <= 0 {
				t.Fatalf("histogram count %d after observing %v", hh.Count(), hugeObs)
			}
			if got := hh.Sum(); overflow && !math.IsInf(got, 1) {
				t.Fatalf("histogram sum is %v after observing %v: the total exceeds the largest float64, the sum is +Inf", got, hugeObs)
			} else if !overflow && got != run {
				t.Fatalf("histogram sum is %v after observing %v, want %v", got, hugeObs, run)
			}
		}
		if hh.Count() != int64(len(hugeObs)) {
			t.Fatalf("histogram count %d after %d observations", hh.Count(), len(hugeObs))
		}
		ps := rapid.SliceOfN(rapid.OneOf(rapid.Float64Range(0, 100), rapid.SampledFrom([]float64{0, 1, 50, 90, 95, 99, 99.9, 100})), 2, 8).Draw(t, "ps")
		sort.Float64s(ps)
		prev := -1.0
		for _, p := range ps {
			v := h.Percentile(p)
			if v < prev {
				t.Fatalf("percentile decreases: P(%v)=%v after %v; observations=%v", p, v, prev, obs)
			}
			prev = v
		}
		rec.Case(maxTags >= 2, map[string]any{"series": len(all), "max_tags": maxTags, "observations": len(obs)}, "identity", fmt.Sprintf("max-tags:%d", maxTags))
	})
}

func sortedTags(m map[string]string) []string {
	out := make([]string, 0, len(m))
	for k, v := range m {
		out = append(out, k+"="+v)
	}
	sort.Strings(out)
	return out
}

// monitorTotals reads the exported metrics of a monitor and sums the named counters.
func monitorTotals(pm *metrics.PerformanceMonitor) (sum map[string]float64, series map[string]int) {
	sum, series = map[string]float64{}, map[string]int{}
	for _, m := range pm.GetPerformanceReport().ApplicationMetrics {
		sum[m.Name] += m.Value
		series[fmt.Sprintf("%s|%v", m.Name, sortedTags(m.Tags))]++
	}
	return
}

func TestC18_Monitor(t *testing.T) {
	rec := stat.For("C18")
	rec.Rule("monitor: generated sequences of RecordSearchOperation / RecordDatabaseOperation. Oracle: searches_total summed over its series == n, cache_hits_total + cache_misses_total == n, query_length_count == n, exactly one database_operations_total series per (operation, success) with value == its count.")
	rapid.Check(t, func(t *rapid.T) {
		pm := metrics.NewPerformanceMonitor()
		nSearch := rapid.IntRange(0, 30).Draw(t, "searches")
		hits := 0
		for i := 0; i < nSearch; i++ {
			hit := rapid.Bool().Draw(t, "hit")
			if hit {
				hits++
			}
			pm.RecordSearchOperation(time.Duration(rapid.IntRange(0, 5000).Draw(t, "us"))*time.Microsecond, rapid.IntRange(0, 10).Draw(t, "results"), hit, rapid.IntRange(0, 1000).Draw(t, "qlen"))
		}
		type key struct {
			op string
			ok bool
		}
		want := map[key]int{}
		nOps := rapid.IntRange(0, 30).Draw(t, "ops")
		for i := 0; i < nOps; i++ {
			k := key{rapid.SampledFrom([]string{"load", "save", "index", "x y"}).Draw(t, "op"), rapid.Bool().Draw(t, "ok")}
			want[k]++
			pm.RecordDatabaseOperation(k.op, time.Millisecond, k.ok)
		}
		sum, series := monitorTotals(pm)
		if int(sum["searches_total"]) != nSearch {
			t.Fatalf("searches_total sums to %v after %d recorded searches", sum["searches_total"], nSearch)
		}
		if int(sum["cache_hits_total"]+sum["cache_misses_total"]) != nSearch || int(sum["cache_hits_total"]) != hits {
			t.Fatalf("cache hits %v + misses %v after %d searches (%d hits)", sum["cache_hits_total"], sum["cache_misses_total"], nSearch, hits)
		}
		if int(sum["query_length_count"]) != nSearch {
			t.Fatalf("query_length_count = %v after %d searches", sum["query_length_count"], nSearch)
		}
		if int(sum["database_operations_total"]) != nOps {
			t.Fatalf("database_operations_total sums to %v after %d operations", sum["database_operations_total"], nOps)
		}
		for k, n := range want {
			id := fmt.Sprintf("database_operations_total|%v", sortedTags(map[string]string{"operation": k.op, "success": fmt.Sprint(k.ok)}))
			if series[id] != 1 {
				t.Fatalf("identity %s is exported as %d series (recorded %d times)", id, series[id], n)
			}
		}
		rec.Case(nOps >= 2, map[string]any{"searches": nSearch, "operations": nOps, "op_identities": len(want)}, "monitor")
	})
}

// TestC18_Concurrent: G goroutines record on shared series (run with -race).
func TestC18_Concurrent(t *testing.T) {
	rec := stat.For("C18")
	rec.Rule("concurrent: G goroutines x K events on shared counter / histogram / monitor series, under the race detector. Oracle: totals equal G*K, one series per identity.")
	rapid.Check(t, func(t *rapid.T) {
		g := rapid.IntRange(2, 12).Draw(t, "goroutines")
		k := rapid.IntRange(5, 60).Draw(t, "events")
		c := metrics.NewCollector()
		pm := metrics.NewPerformanceMonitor()
		tags := map[string]string{"a": "1", "b": "2", "c": "3"}
		bigObs := []float64{20000, 1e6, 50000, 10001, 9999, 1e9, 12000, 3}
		var wg sync.WaitGroup
		for i := 0; i < g; i++ {
			wg.Add(1)
			go func(i int) {
				defer wg.Done()
				for j := 0; j < k; j++ {
					c.Counter("shared", rebuilt(tags, i+j)).Inc()
					c.Histogram("h", rebuilt(tags, j)).Observe(float64(j % 7))
					c.Histogram("big", rebuilt(tags, j)).Observe(bigObs[(i+j)%len(bigObs)]) // mostly beyond the top bucket boundary
					pm.RecordSearchOperation(time.Millisecond, j, (i+j)%2 == 0, j)
					pm.RecordDatabaseOperation("load", time.Millisecond, j%3 == 0)
					if j%5 == 0 {
						c.GetAllMetrics()
					}
				}
			}(i)
		}
		wg.Wait()
		n := int64(g * k)
		if hb := c.Histogram("big", tags); hb.Count() != n {
			t.Fatalf("histogram of large values counts %d after %d concurrent observations", hb.Count(), n)
		} else {
			prev := math.Inf(-1)
			for _, p := range []float64{0, 1, 10, 50, 90, 99, 99.9, 99.99, 100} {
				v := hb.Percentile(p)
				if v < prev {
					t.Fatalf("after %d concurrent observations of large values Percentile(%v) = %v, below the %v of a lower percentile", n, p, v, prev)
				}
				prev = v
			}
		}
		if v := c.Counter("shared", tags).Value(); v != n {
			t.Fatalf("shared counter = %d after %d concurrent increments", v, n)
		}
		if v := c.Histogram("h", tags).Count(); v != n {
			t.Fatalf("shared histogram count = %d after %d concurrent observations", v, n)
		}
		sum, _ := monitorTotals(pm)
		if int64(sum["searches_total"]) != n || int64(sum["cache_hits_total"]+sum["cache_misses_total"]) != n || int64(sum["query_length_count"]) != n || int64(sum["database_operations_total"]) != n {
			t.Fatalf("monitor totals after %d concurrent events: %v", n, sum)
		}
		rec.Case(true, map[string]any{"goroutines": g, "events_each": k}, "concurrent")
	})
}

// TestC18_Wrapper: the monitoring wrapper of the database records every search made through
// it while monitoring is on - whatever the state of the result cache - and every load.
func TestC18_Wrapper(t *testing.T) {
	rec := stat.For("C18")
	rec.Rule("monitoring wrapper: state machine over MonitoredDatabase - monitored searches (both entry points), cache on/off, cache invalidation, monitoring on/off, monitored loads. Oracle: searches_total, hits+misses and query_length_count equal the number of monitored searches made while monitoring was on; database_operations_total equals the loads made while it was on.")
	rapid.Check(t, func(t *rapid.T) {
		cmds := c05DB(t, "cmds")
		mdb := database.NewMonitoredDatabase(gen.Load(t, cmds))
		toks := gen.Tokens(cmds)
		if len(toks) == 0 {
			toks = []string{"find"}
		}
		searches, loads := 0, 0
		monitoring, caching := true, true
		var steps []string
		t.Repeat(map[string]func(*rapid.T){
			"search": func(t *rapid.T) {
				q := rapid.SampledFrom(toks).Draw(t, "q")
				if rapid.Bool().Draw(t, "simple") {
					mdb.SearchWithMonitoring(q, rapid.IntRange(0, 5).Draw(t, "limit"))
				} else {
					mdb.SearchWithOptionsAndMonitoring(q, database.SearchOptions{Limit: 5, UseNLP: rapid.Bool().Draw(t, "nlp"), UseFuzzy: true})
				}
				if monitoring {
					searches++
				}
				steps = append(steps, "search")
			},
			"cache": func(t *rapid.T) {
				caching = rapid.Bool().Draw(t, "on")
				mdb.EnableCache(caching)
				steps = append(steps, fmt.Sprintf("cache(%v)", caching))
			},
			"invalidate": func(t *rapid.T) {
				mdb.InvalidateCache()
				steps = append(steps, "invalidate")
			},
			"monitoring": func(t *rapid.T) {
				monitoring = rapid.IntRange(0, 3).Draw(t, "on") > 0
				mdb.EnableMonitoring(monitoring)
				if mdb.IsMonitoringEnabled() != monitoring {
					t.Fatalf("IsMonitoringEnabled()=%v after EnableMonitoring(%v)", mdb.IsMonitoringEnabled(), monitoring)
				}
				steps = append(steps, fmt.Sprintf("monitoring(%v)", monitoring))
			},
			"load": func(t *rapid.T) {
				if err := mdb.LoadDatabaseWithMonitoring(gen.Load(t, c05DB(t, "cmds2")).Commands); err != nil {
					t.Fatalf("LoadDatabaseWithMonitoring: %v", err)
				}
				if monitoring {
					loads++
				}
				steps = append(steps, "load")
			},
			"": func(t *rapid.T) {
				sum := map[string]float64{}
				for _, m := range mdb.GetPerformanceReport().ApplicationMetrics {
					sum[m.Name] += m.Value
				}
				if int(sum["searches_total"]) != searches || int(sum["cache_hits_total"]+sum["cache_misses_total"]) != searches || int(sum["query_length_count"]) != searches {
					t.Fatalf("after %d monitored searches: searches_total=%v hits+misses=%v query_length_count=%v (cache on=%v, monitoring on=%v); steps=%v", searches, sum["searches_total"], sum["cache_hits_total"]+sum["cache_misses_total"], sum["query_length_count"], caching, monitoring, steps)
				}
				if int(sum["database_operations_total"]) != loads {
					t.Fatalf("after %d monitored loads: database_operations_total=%v; steps=%v", loads, sum["database_operations_total"], steps)
				}
			},
		})
		rec.Case(searches >= 2, map[string]any{"wrapper": true, "searches": searches, "loads": loads, "steps": len(steps)}, "wrapper")
	})
}
