package props

import (
	"fmt"
	"math"
	"os"
	"sort"
	"strings"
	"testing"

	"github.com/Vedant9500/WTF/internal/database"
	"github.com/Vedant9500/WTF/verifharness/gen"
	"github.com/Vedant9500/WTF/verifharness/ref"
	"github.com/Vedant9500/WTF/verifharness/stat"
	"pgregory.net/rapid"
)

// C03 — the inverted index answers exactly like an exhaustive scan of the commands.

func closeRel(a, b float64) bool {
	return math.Abs(a-b) <= 1e-9*math.Max(1, math.Max(math.Abs(a), math.Abs(b)))
}

// buildByHistory produces a Database whose Commands equal cmds through one of the
// documented histories, and reports which one.
func buildByHistory(t *rapid.T, cmds []database.Command, o gen.CmdOpts) (*database.Database, string) {
	hist := rapid.SampledFrom(c03Histories).Draw(t, "history")
	if hist == "empty-refill" && len(cmds) == 0 {
		hist = "load"
	}
	if hist == "edit-grow" && len(cmds) < 3 {
		hist = "grow"
	}
	if hist == "made-edit-grow" && len(cmds) < 3 {
		hist = "made"
	}
	switch hist {
	case "merge":
		k := rapid.IntRange(0, len(cmds)).Draw(t, "split")
		mp := gen.WriteDB(t, cmds[:k])
		defer os.Remove(mp)
		pp := gen.TempPath(".yml")
		if k < len(cmds) || rapid.Bool().Draw(t, "empty-personal-file") {
			if err := os.WriteFile(pp, gen.EmitYAML(cmds[k:]), 0o644); err != nil {
				t.Fatalf("harness: %v", err)
			}
			defer os.Remove(pp)
		} // else: personal notebook absent
		db, err := database.LoadDatabaseWithPersonal(mp, pp)
		if err != nil {
			t.Fatalf("LoadDatabaseWithPersonal failed on well-formed files: %v", err)
		}
		return db, hist
	case "replace":
		old, _ := gen.DB(t, o, []int{1, 2, 2, 6, 0})
		cdb := database.NewCachedDatabase(gen.Load(t, old))
		// warm both searchers on the old content
		cdb.SearchWithOptionsAndCache("find files", database.SearchOptions{Limit: 5, UseNLP: true})
		src := gen.Load(t, cmds) // commands as real callers have them (cache fields populated)
		cdb.UpdateDatabase(src.Commands)
		return cdb.Database, hist
	case "republish":
		// the list a caching layer serves is edited or re-ordered IN PLACE (same slice, same length) and
		// that same slice is handed back to UpdateDatabase - a periodic reload that re-publishes its list
		old := make([]database.Command, len(cmds))
		for i := range old {
			old[i] = gen.Command(o).Draw(t, "old-entry")
		}
		cdb := database.NewCachedDatabase(gen.Load(t, old))
		cdb.SearchWithOptionsAndCache("find files", database.SearchOptions{Limit: 5, UseNLP: true})
		c03Warm(t, cdb.Database)
		copy(cdb.Commands, gen.Load(t, cmds).Commands)
		cdb.UpdateDatabase(cdb.Commands)
		return cdb.Database, hist
	case "empty-refill":
		// a searched database is emptied, searched while empty, and refilled with as many (other) entries
		old := make([]database.Command, len(cmds))
		for i := range old {
			old[i] = gen.Command(o).Draw(t, "old-entry")
		}
		db := gen.Load(t, old)
		c03Warm(t, db)
		if rapid.Bool().Draw(t, "nil-list") {
			db.Commands = nil
		} else {
			db.Commands = db.Commands[:0]
		}
		for i := rapid.IntRange(1, 2).Draw(t, "searches-while-empty"); i > 0; i-- {
			if r := db.SearchUniversal("find files", database.SearchOptions{Limit: 5, UseNLP: i == 1, UseFuzzy: true}); len(r) != 0 {
				t.Fatalf("a search of an emptied database returned %d results", len(r))
			}
		}
		db.Commands = append(db.Commands, gen.Load(t, cmds).Commands...)
		return db, hist
	case "edit-grow":
		// a searched database whose entries are then rewritten IN PLACE (same backing array, spare
		// capacity: the filter idiom `kept := list[:0]`, or overwriting elements) and extended
		k := rapid.IntRange(1, len(cmds)-2).Draw(t, "edit-from")
		old := cloneCmds(cmds[:k+1])
		for i := range old {
			if rapid.Bool().Draw(t, "was-other") {
				old[i] = gen.Command(o).Draw(t, "old-entry") // what stood there before the edit
			}
		}
		db := gen.Load(t, old[:k])
		last := gen.Load(t, old[k:])
		// grown once into an array with room to spare, and searched there
		db.Commands = append(append(make([]database.Command, 0, len(cmds)+4), db.Commands...), last.Commands...)
		c03Warm(t, db)
		final := gen.Load(t, cmds)
		copy(db.Commands[:k+1], final.Commands[:k+1])              // rewritten in place
		db.Commands = append(db.Commands, final.Commands[k+1:]...) // extended within the same array
		return db, hist
	case "made":
		// entries made by the program (struct literals: no derived fields), never read from a file
		return &database.Database{Commands: cloneCmds(cmds)}, hist
	case "made-edit-grow":
		// the same, searched, then entries rewritten in place through the slice and more appended
		k := rapid.IntRange(1, len(cmds)-2).Draw(t, "edit-from")
		old := cloneCmds(cmds[:k+1])
		for i := range old {
			if rapid.Bool().Draw(t, "was-other") {
				if c03Filtered && len(old[i].Platform) > 0 && rapid.Bool().Draw(t, "only-first-word-differed") {
					// the same tagged entry under another tool name (the eligibility verdict may flip)
					rest := old[i].Command[strings.IndexByte(old[i].Command, ' '):]
					old[i].Command = rapid.SampledFrom(c03FirstWords).Draw(t, "old-first-word") + rest
					continue
				}
				old[i] = gen.Command(o).Draw(t, "old-entry")
			}
		}
		db := &database.Database{Commands: append(make([]database.Command, 0, len(cmds)+4), old...)}
		if rapid.Bool().Draw(t, "eager-build") {
			db.BuildUniversalIndex()
		}
		db.SearchUniversal("find files", database.SearchOptions{Limit: 5, UseNLP: rapid.Bool().Draw(t, "warm-nlp")})
		c03Warm(t, db)
		final := cloneCmds(cmds)
		for i := 0; i <= k; i++ { // field by field, as an editing caller would
			db.Commands[i].Command = final[i].Command
			db.Commands[i].Description = final[i].Description
			db.Commands[i].Keywords = final[i].Keywords
			db.Commands[i].Tags = final[i].Tags
			db.Commands[i].Platform = final[i].Platform
			db.Commands[i].Pipeline = final[i].Pipeline
			db.Commands[i].Niche = final[i].Niche
		}
		db.Commands = append(db.Commands, final[k+1:]...)
		return db, hist
	case "grow":
		k := rapid.IntRange(0, len(cmds)).Draw(t, "grow-from")
		db := gen.Load(t, cmds[:k])
		c03Warm(t, db)
		more := gen.Load(t, cmds[k:])
		db.Commands = append(db.Commands, more.Commands...)
		return db, hist
	default:
		return gen.Load(t, cmds), "load"
	}
}

// first words for tagged entries in filtered mode: only words the harness classifies itself
var c03FirstWords = []string{"git", "docker", "tar", "curl", "grep", "kubectl", "ls", "find", "GIT", "apt", "ipconfig", "systemctl", "dir", "brew", "gitk", "findstr", "chmod", "xgit", "tarball"}

func c03IsTool(command string) bool {
	first := strings.ToLower(command)
	if i := strings.IndexByte(first, ' '); i >= 0 {
		first = first[:i]
	}
	if c04Tools[first] == c04NonTools[first] {
		panic("harness: first word " + first + " is not classified")
	}
	return c04Tools[first]
}

// c03Filtered tells the history builders of the current case to warm up with the filter on.
var c03Filtered bool

// c03Warm asks a few questions before the content changes: the stock one, and in filtered mode
// the words of the entries held at that moment with the platform filter on.
func c03Warm(t *rapid.T, db *database.Database) {
	db.SearchUniversal("find files", database.SearchOptions{Limit: 5, UseNLP: true})
	if !c03Filtered {
		return
	}
	for _, w := range gen.Tokens(db.Commands) {
		if rapid.IntRange(0, 2).Draw(t, "warm-word") == 0 {
			db.SearchUniversal(w, database.SearchOptions{Limit: len(db.Commands) + 1, NoCrossPlatform: false,
				Platforms: rapid.SampledFrom([][]string{nil, {"linux"}, {"windows"}, {"macos"}}).Draw(t, "warm-platforms")})
		}
	}
}

var c03Histories = []string{"load", "merge", "replace", "grow", "edit-grow", "empty-refill", "made", "made-edit-grow", "republish", "republish"}

func sameCommands(db *database.Database, cmds []database.Command) string {
	if len(db.Commands) != len(cmds) {
		return fmt.Sprintf("database holds %d commands, expected %d", len(db.Commands), len(cmds))
	}
	for i := range cmds {
		a, b := db.Commands[i], cmds[i]
		if a.Command != b.Command || a.Description != b.Description || fmt.Sprint(a.Keywords) != fmt.Sprint(b.Keywords) || fmt.Sprint(a.Tags) != fmt.Sprint(b.Tags) {
			return fmt.Sprintf("entry %d differs: %+v vs %+v", i, gen.Brief(a), gen.Brief(b))
		}
	}
	return ""
}

func c03Property(t *rapid.T) {
	rec := stat.For("C03")
	o := gen.CmdOpts{Unicode: rapid.IntRange(0, 2).Draw(t, "unicode") == 0, Irregular: true, Heavy: true, Long: true}
	cmds, cls := gen.DB(t, o, []int{1, 2, 4, 10, 1})
	ubiq := ""
	if rapid.IntRange(0, 3).Draw(t, "ubiquitous") == 0 {
		if len(cmds) < 25 && rapid.Bool().Draw(t, "pad-to-25+") {
			cmds = append(cmds, gen.Bulk(t, rapid.IntRange(25, 60).Draw(t, "pad-n"), o)...)
		}
		ubiq = gen.Ubiquitous(t, cmds) // a word in (nearly) every entry: the smallest idf there is
	}
	// "filter-eligible": in a third of the cases the platform filter is on. Tags and platforms in
	// force come from the four canonical names, and every tagged entry starts with a first word the
	// harness classifies itself (recognised cross-platform tool or certainly none)
	filtered := rapid.IntRange(0, 2).Draw(t, "platform-filter-on") == 0
	if filtered {
		for i := range cmds {
			cmds[i].Platform = rapid.SampledFrom([][]string{nil, nil, {"linux"}, {"macos"}, {"windows"}, {"cross-platform"}, {"linux", "macos"}, {"windows", "cross-platform"}}).Draw(t, "platform-tags")
			if len(cmds[i].Platform) > 0 {
				cmds[i].Command = rapid.SampledFrom(c03FirstWords).Draw(t, "first-word") + " " + cmds[i].Command
			}
		}
		c03Filtered = true
	} else {
		c03Filtered = false
	}
	db, hist := buildByHistory(t, cmds, o)
	if msg := sameCommands(db, cmds); msg != "" {
		t.Fatalf("history %s: %s", hist, msg)
	}
	qcls := []gen.QueryClass{"vocab", "vocab", "vocab", "mixed", "nlp", "long", "stop", "one"}
	if o.Unicode {
		qcls = append(qcls, "unicode", "unicode")
	}
	q, qc := gen.Query(t, cmds, qcls)
	for _, tk := range gen.Tokens(cmds) {
		if len(tk) > 64 && rapid.IntRange(0, 2).Draw(t, "ask-long-word") == 0 {
			q = rapid.SampledFrom([]string{tk, tk + " " + q}).Draw(t, "long-word-query") // a word of more than 64 letters (it may have a twin that differs only at its end)
			break
		}
	}
	heavy := gen.HeavyWord(cmds)
	if heavy != "" && rapid.IntRange(0, 2).Draw(t, "ask-heavy") > 0 {
		q = rapid.SampledFrom([]string{heavy, heavy + " " + q}).Draw(t, "heavy-query")
	}
	if ubiq != "" && rapid.Bool().Draw(t, "ask-ubiquitous") {
		q = rapid.SampledFrom([]string{ubiq, ubiq + " " + q, q + " " + ubiq}).Draw(t, "ubiquitous-query")
	}
	opt := database.SearchOptions{Limit: len(cmds) + rapid.IntRange(1, 5).Draw(t, "extra"), AllPlatforms: true,
		PipelineOnly: rapid.IntRange(0, 3).Draw(t, "ponly") == 0, TopTermsCap: rapid.SampledFrom([]int{0, 0, 10, 20}).Draw(t, "cap")}
	if filtered {
		opt.AllPlatforms = false
		opt.Platforms = rapid.SampledFrom([][]string{nil, nil, {"linux"}, {"windows"}, {"macos"}, {"windows", "macos"}}).Draw(t, "platforms-in-force")
		opt.NoCrossPlatform = rapid.IntRange(0, 2).Draw(t, "no-cross-platform") == 0
	}
	toks := gen.Tokens(cmds)
	if len(toks) > 0 && rapid.Bool().Draw(t, "boosts") {
		opt.ContextBoosts = map[string]float64{}
		for i := rapid.IntRange(1, 3).Draw(t, "nb"); i > 0; i-- {
			opt.ContextBoosts[rapid.SampledFrom(toks).Draw(t, "bw")] = rapid.SampledFrom([]float64{1, 1.3, 1.5, 2, 3, 0.5, 0, -2, math.NaN(), 1e-300, 1e6, 5e-324, 1e-320}).Draw(t, "bf") // non-positive and NaN factors are ignored
		}
	}
	res := db.SearchUniversal(q, opt)
	got := map[int]float64{}
	for _, r := range res {
		i := gen.IndexOf(db, r.Command)
		if i < 0 {
			t.Fatalf("result %q is not an entry of the database", r.Command.Command)
		}
		got[i] = r.Score
	}
	docs := ref.Index(cmds)
	terms := ref.Tokenize(q)
	p := hookParams(db)
	p.MinIDF = 0 // the statement has no idf cut-off: every content word of the query counts, however common
	var elig func(int) bool
	if opt.PipelineOnly || filtered {
		elig = func(i int) bool {
			if opt.PipelineOnly && !ref.IsPipeline(&cmds[i]) {
				return false
			}
			return !filtered || !ref.PlatformViolation(&cmds[i], opt, c04Host(), c03IsTool)
		}
	}
	ctx := func() string {
		return fmt.Sprintf("history=%s query=%q terms=%v options=%v\n db=%v", hist, q, terms, optBrief(opt), gen.BriefDB(cmds, 12))
	}
	labels := []string{"db:" + string(cls), "q:" + string(qc), "history:" + hist, fmt.Sprintf("platform-filter:%v", filtered)}
	switch {
	case len(terms) > 10:
		labels = append(labels, "long-query")
		first := terms[:4]
		var distinctFirst []string
		seen := map[string]bool{}
		for _, x := range first {
			if !seen[x] {
				seen[x] = true
				distinctFirst = append(distinctFirst, x)
			}
		}
		lower := ref.Score(docs, distinctFirst, opt.ContextBoosts, p, elig)
		upper := ref.Score(docs, terms, opt.ContextBoosts, p, elig)
		for i, lo := range lower {
			g, ok := got[i]
			if !ok {
				t.Fatalf("long query: entry #%d matches one of the first four content words %v but is missing\n%s", i, first, ctx())
			}
			if g < lo && !closeRel(g, lo) {
				t.Fatalf("long query: entry #%d scored %v, below the sum over its first four content words %v\n%s", i, g, lo, ctx())
			}
		}
		for i, g := range got {
			up, ok := upper[i]
			if !ok {
				t.Fatalf("long query: entry #%d returned but contains no content word of the query\n%s", i, ctx())
			}
			if g > up && !closeRel(g, up) {
				t.Fatalf("long query: entry #%d scored %v, above the all-terms sum %v\n%s", i, g, up, ctx())
			}
		}
	default:
		want := ref.Score(docs, terms, opt.ContextBoosts, p, elig)
		for i := range want {
			if _, ok := got[i]; !ok {
				t.Fatalf("entry #%d (%q) contains a content word of the query but was not returned\n%s", i, cmds[i].Command, ctx())
			}
		}
		for i := range got {
			if _, ok := want[i]; !ok {
				t.Fatalf("entry #%d (%q) was returned but contains no content word of the query (or is filtered out)\n%s", i, cmds[i].Command, ctx())
			}
		}
		if ref.Distinct(terms) {
			labels = append(labels, "exact-scores")
			for i, w := range want {
				if !closeRel(got[i], w) {
					t.Fatalf("entry #%d (%q): engine score %v, BM25F recomputed from the texts %v\n%s", i, cmds[i].Command, got[i], w, ctx())
				}
			}
		} else {
			labels = append(labels, "duplicate-terms")
		}
	}
	// staleness: the NLP-on answer must equal the answer of a freshly loaded database
	fresh := gen.Load(t, cmds)
	if strings.HasPrefix(hist, "made") {
		fresh = &database.Database{Commands: cloneCmds(cmds)} // made the same way, never searched before
	}
	for _, nlpOn := range []bool{false, true} {
		so := opt
		so.UseNLP = nlpOn
		a := rank(db, db.SearchUniversal(q, so))
		b := rank(fresh, fresh.SearchUniversal(q, so))
		if len(a) != len(b) {
			t.Fatalf("after history %s the search (nlp=%v) returns %d results, a freshly loaded copy %d\n%s", hist, nlpOn, len(a), len(b), ctx())
		}
		for i := range a {
			if a[i].Idx != b[i].Idx || !closeRel(math.Float64frombits(a[i].Bits), math.Float64frombits(b[i].Bits)) {
				t.Fatalf("after history %s the search (nlp=%v) differs from a freshly loaded copy at rank %d:\n got   %s\n fresh %s\n%s", hist, nlpOn, i, rankStr(a), rankStr(b), ctx())
			}
		}
	}
	multi := false
	for i := range got {
		n := 0
		for f := 0; f < 4; f++ {
			for _, term := range terms {
				found := false
				for _, x := range docs[i].F[f] {
					if x == term {
						found = true
					}
				}
				if found {
					n++
					break
				}
			}
		}
		if n >= 2 {
			multi = true
		}
	}
	if multi {
		labels = append(labels, "multi-field-hit")
	}
	if ref.LowersToASCII(q) {
		labels = append(labels, "lowers-to-ascii-rune")
	}
	if heavy != "" {
		for _, x := range terms {
			if x == heavy {
				labels = append(labels, "term-repeated-255+")
				break
			}
		}
	}
	if ubiq != "" && len(cmds) >= 25 {
		for _, x := range terms {
			if x == ubiq {
				labels = append(labels, "ubiquitous-term-25+")
				break
			}
		}
	}
	nontrivial := len(got) > 0 && len(got) < len(cmds)
	keys := make([]int, 0, len(got))
	for k := range got {
		keys = append(keys, k)
	}
	sort.Ints(keys)
	rec.Case(nontrivial, map[string]any{"history": hist, "db_class": cls, "db": gen.BriefDB(cmds, 6), "query": q, "terms": terms, "options": optBrief(opt), "result_set": keys}, labels...)
}

func TestC03_Scan(t *testing.T) {
	r := stat.For("C03")
	r.Rule("database (any field contents, duplicates, empty fields, Unicode pool) x history in {load, merge main+notebook, CachedDatabase.UpdateDatabase, direct growth of Commands} x query from the database vocabulary x per-term boosts x pipeline-only; NLP and fuzzy off, Limit >= N. Oracle: independent tokenizer + BM25F scorer over the command texts (set equality both ways; scores within 1e-9 relative for distinct query terms; the weaker first-four claim for >10 content words) and equality with a freshly loaded database (NLP off and on). Non-trivial = result set neither empty nor everything.")
	for _, h := range c03Histories {
		r.RequireShare("history:"+h, 0.04)
	}
	r.RequireShare("multi-field-hit", 0.15)
	r.RequireShare("ubiquitous-term-25+", 0.02)
	r.RequireShare("term-repeated-255+", 0.02)
	rapid.Check(t, c03Property)
}

// TestC03_Shipped recomputes queries over the shipped database with the reference scorer.
func TestC03_Shipped(t *testing.T) {
	rec := stat.For("C03")
	db, err := shipped()
	if err != nil {
		t.Fatalf("shipped: %v", err)
	}
	cmds := cloneCmds(db.Commands)
	docs := ref.Index(cmds)
	p := hookParams(db)
	p.MinIDF = 0
	rapid.Check(t, func(t *rapid.T) {
		off := rapid.IntRange(0, len(cmds)-40).Draw(t, "off")
		q, qc := gen.Query(t, cmds[off:off+30], []gen.QueryClass{"vocab", "vocab", "mixed", "nlp"})
		terms := ref.Tokenize(q)
		if len(terms) > 10 || !ref.Distinct(terms) {
			rec.Case(false, map[string]any{"shipped": true, "query": q, "skipped": "long or duplicate terms"}, "shipped-skip")
			return
		}
		opt := database.SearchOptions{Limit: len(cmds) + 1, AllPlatforms: true}
		res := db.SearchUniversal(q, opt)
		want := ref.Score(docs, terms, nil, p, nil)
		if len(res) != len(want) {
			t.Fatalf("shipped database, query %q: engine returns %d entries, exhaustive scan %d", q, len(res), len(want))
		}
		for _, r := range res {
			i := gen.IndexOf(db, r.Command)
			w, ok := want[i]
			if !ok || !closeRel(r.Score, w) {
				t.Fatalf("shipped database, query %q: entry #%d (%q) engine %v reference %v (in scan: %v)", q, i, r.Command.Command, r.Score, w, ok)
			}
		}
		rec.Case(len(want) > 0, map[string]any{"shipped": true, "query": q, "terms": terms, "matches": len(want)}, "shipped", "q:"+string(qc))
	})
}
