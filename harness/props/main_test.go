package props

import (
	"encoding/json"
	"fmt"
	"os"
	"path/filepath"
	"strconv"
	"strings"
	"sync"
	"testing"

	"github.com/Vedant9500/WTF/verifharness/proc"
	"github.com/Vedant9500/WTF/verifharness/stat"
)

func TestMain(m *testing.M) {
	// The test binary doubles as the resource-limit launcher for child processes.
	if proc.MaybeRunHelper() {
		return
	}
	code := m.Run()
	stat.Flush()
	os.Exit(code)
}

// tier returns "quick" or "thorough".
func tier() string {
	if os.Getenv("VERIF_TIER") == "thorough" {
		return "thorough"
	}
	return "quick"
}

// envInt reads an integer knob passed by the driver.
func envInt(name string, def int) int {
	if v := os.Getenv(name); v != "" {
		if n, err := strconv.Atoi(v); err == nil {
			return n
		}
	}
	return def
}

// ---- known findings -------------------------------------------------------------

type knownEntry struct {
	Status    string `json:"status"` // "known" or "fixed"
	Property  string `json:"property"`
	Signature string `json:"signature"`
	What      string `json:"what"`
	Commit    string `json:"commit,omitempty"`
}

var (
	knownOnce sync.Once
	knownList []knownEntry
)

func loadKnown() {
	knownOnce.Do(func() {
		p := os.Getenv("VERIF_KNOWN")
		if p == "" {
			return
		}
		data, err := os.ReadFile(p)
		if err != nil {
			return
		}
		var f struct {
			Findings []knownEntry `json:"findings"`
		}
		if json.Unmarshal(data, &f) == nil {
			knownList = f.Findings
		}
	})
}

// isKnown reports whether (property, signature) is listed as a known (unrepaired) finding.
func isKnown(property, signature string) bool {
	loadKnown()
	for _, k := range knownList {
		if k.Status == "known" && k.Property == property && k.Signature == signature {
			return true
		}
	}
	return false
}

func knownWhat(property, signature string) string {
	loadKnown()
	for _, k := range knownList {
		if k.Property == property && k.Signature == signature {
			return k.What
		}
	}
	return ""
}

// reportKnown prints the line the interface requires for a listed finding that still reproduces.
func reportKnown(property, signature string) {
	fmt.Printf("KNOWN-FINDING: property=%s signature=%s %s\n", property, signature, knownWhat(property, signature))
}

// ---- replay cases for non-rapid checks -----------------------------------------------

// saveCase stores a JSON replay case for checks whose failures rapid cannot persist
// (child-process, fault-enumeration and concurrency checks). The driver collects the
// directory $VERIF_REPLAY_OUT after a failing run.
func saveCase(property, name string, v any) string {
	dir := os.Getenv("VERIF_REPLAY_OUT")
	if dir == "" {
		dir = "."
	}
	_ = os.MkdirAll(dir, 0o755)
	p := filepath.Join(dir, fmt.Sprintf("%s-%s-%d.json", property, name, os.Getpid()))
	data, err := json.MarshalIndent(v, "", " ")
	if err != nil { // e.g. NaN option values: keep a readable record
		data, _ = json.MarshalIndent(map[string]any{"unserializable": fmt.Sprintf("%+v", v), "error": err.Error()}, "", " ")
	}
	_ = os.WriteFile(p, data, 0o644)
	return p
}

// replayCase loads the JSON case named by $VERIF_CASE when it belongs to this check.
func replayCase(property, name string, v any) bool {
	p := os.Getenv("VERIF_CASE")
	if p == "" || !strings.Contains(filepath.Base(p), property+"-"+name+"-") {
		return false
	}
	data, err := os.ReadFile(p)
	if err != nil {
		return false
	}
	return json.Unmarshal(data, v) == nil
}
