package props

import (
	"fmt"
	"math"
	"strings"
	"testing"
	"time"
	"unicode"

	"github.com/Vedant9500/WTF/internal/database"
	"github.com/Vedant9500/WTF/verifharness/gen"
	"github.com/Vedant9500/WTF/verifharness/stat"
	"pgregory.net/rapid"
)

// C05 — the result cache is invisible: cached answers equal fresh answers.

// c05Options builds the option pool: a base set plus one-field deltas in every field.
func c05Options(t *rapid.T, words []string) []database.SearchOptions {
	base := database.SearchOptions{Limit: 5, UseNLP: true, UseFuzzy: true}
	w := func(i int) string { return words[i%len(words)] }
	mk := func(f func(o *database.SearchOptions)) database.SearchOptions {
		o := base
		f(&o)
		return o
	}
	pool := []database.SearchOptions{
		base,
		mk(func(o *database.SearchOptions) { o.Limit = 2 }),
		mk(func(o *database.SearchOptions) { o.Limit = 0 }),
		mk(func(o *database.SearchOptions) { o.Limit = 75 }),
		mk(func(o *database.SearchOptions) { o.Limit = 1000 }),
		mk(func(o *database.SearchOptions) { o.Limit = 1000; o.UseNLP = false }),
		mk(func(o *database.SearchOptions) { o.ContextBoosts = map[string]float64{w(0): 3} }),
		mk(func(o *database.SearchOptions) { o.ContextBoosts = map[string]float64{w(0): 1.5} }),
		mk(func(o *database.SearchOptions) { o.ContextBoosts = map[string]float64{w(1): 3} }),
		// weights that differ by less than any sensible rounding step
		mk(func(o *database.SearchOptions) { o.ContextBoosts = map[string]float64{w(0): 3.004} }),
		mk(func(o *database.SearchOptions) { o.ContextBoosts = map[string]float64{w(0): math.Nextafter(3, 4)} }),
		mk(func(o *database.SearchOptions) { o.ContextBoosts = map[string]float64{w(0): 0.004} }),
		mk(func(o *database.SearchOptions) { o.ContextBoosts = map[string]float64{w(0): 0} }),
		mk(func(o *database.SearchOptions) { o.PipelineBoost = 2.0000001 }),
		mk(func(o *database.SearchOptions) { o.FuzzyThreshold = 41 }),
		mk(func(o *database.SearchOptions) { o.Limit = 6 }),
		mk(func(o *database.SearchOptions) { o.PipelineOnly = true }),
		mk(func(o *database.SearchOptions) { o.PipelineBoost = 2 }),
		mk(func(o *database.SearchOptions) { o.UseFuzzy = false }),
		mk(func(o *database.SearchOptions) { o.FuzzyThreshold = 40 }),
		mk(func(o *database.SearchOptions) { o.UseNLP = false }),
		mk(func(o *database.SearchOptions) { o.TopTermsCap = 1 }),
		mk(func(o *database.SearchOptions) { o.TopTermsCap = 5 }),
		mk(func(o *database.SearchOptions) { o.AllPlatforms = true }),
		mk(func(o *database.SearchOptions) { o.Platforms = []string{"windows"} }),
		mk(func(o *database.SearchOptions) { o.Platforms = []string{"macos"} }),
		mk(func(o *database.SearchOptions) { o.NoCrossPlatform = true }),
		mk(func(o *database.SearchOptions) { o.Platforms = []string{"windows"}; o.NoCrossPlatform = true }),
		// non-finite boosts (legal float64 values): one-field deltas of each other
		mk(func(o *database.SearchOptions) { o.PipelineBoost = math.Inf(1) }),
		mk(func(o *database.SearchOptions) { o.PipelineBoost = math.Inf(1); o.PipelineOnly = true }),
		mk(func(o *database.SearchOptions) { o.PipelineBoost = math.Inf(1); o.AllPlatforms = true }),
		mk(func(o *database.SearchOptions) { o.PipelineBoost = math.Inf(1); o.UseNLP = false }),
		mk(func(o *database.SearchOptions) { o.ContextBoosts = map[string]float64{w(0): math.Inf(1)} }),
		mk(func(o *database.SearchOptions) {
			o.ContextBoosts = map[string]float64{w(0): math.Inf(1)}
			o.UseFuzzy = false
		}),
		mk(func(o *database.SearchOptions) { o.ContextBoosts = map[string]float64{w(1): math.Inf(1)} }),
		// with a non-finite boost: lists and maps whose elements differ although their joined text is the same
		mk(func(o *database.SearchOptions) {
			o.PipelineBoost = math.Inf(1)
			o.Platforms = []string{"linux", "macos"}
		}),
		mk(func(o *database.SearchOptions) { o.PipelineBoost = math.Inf(1); o.Platforms = []string{"linux macos"} }),
		mk(func(o *database.SearchOptions) { o.PipelineBoost = math.Inf(1); o.Platforms = []string{"windows"} }),
		mk(func(o *database.SearchOptions) { o.ContextBoosts = map[string]float64{w(0): 3, "zz": math.Inf(1)} }),
		mk(func(o *database.SearchOptions) { o.ContextBoosts = map[string]float64{w(0) + ":3 zz": math.Inf(1)} }),
		mk(func(o *database.SearchOptions) { o.ContextBoosts = map[string]float64{w(0): math.NaN()} }),
	}
	// with a non-finite boost (a request JSON cannot render): a one-field delta for EVERY remaining field
	for _, f := range []func(o *database.SearchOptions){
		func(o *database.SearchOptions) { o.NoCrossPlatform = true },
		func(o *database.SearchOptions) { o.Limit = 2 },
		func(o *database.SearchOptions) { o.Limit = 0 },
		func(o *database.SearchOptions) { o.TopTermsCap = 1 },
		func(o *database.SearchOptions) { o.FuzzyThreshold = 40 },
		func(o *database.SearchOptions) { o.UseFuzzy = false },
		func(o *database.SearchOptions) { o.Platforms = []string{"windows"}; o.NoCrossPlatform = true },
		func(o *database.SearchOptions) { o.ContextBoosts = map[string]float64{w(0): 3} },
		func(o *database.SearchOptions) { o.ContextBoosts = map[string]float64{w(0): 1.5} },
		func(o *database.SearchOptions) { o.ContextBoosts = map[string]float64{} },
	} {
		f := f
		pool = append(pool, mk(func(o *database.SearchOptions) { o.PipelineBoost = math.Inf(1); f(o) }))
	}
	// platform names the engine knows as aliases of one another when they stand in an ENTRY's tags: as
	// requested platforms each is a request of its own (its fresh answer is what counts)
	for _, pl := range [][]string{{"darwin"}, {"linux"}, {"unix"}, {"bash"}, {"powershell"}, {"cmd"}, {"MacOS"}, {"macos", "darwin"}, {"darwin", "macos"}, {"linux", "windows"}, {"windows", "linux"}} {
		pl := pl
		pool = append(pool, mk(func(o *database.SearchOptions) { o.Platforms = pl }))
	}
	pool = append(pool,
		mk(func(o *database.SearchOptions) { o.PipelineBoost = math.NaN() }),
		mk(func(o *database.SearchOptions) { o.PipelineBoost = math.NaN(); o.NoCrossPlatform = true }),
		mk(func(o *database.SearchOptions) { o.PipelineBoost = math.Inf(-1) }),
		mk(func(o *database.SearchOptions) { o.PipelineBoost = math.Inf(-1); o.NoCrossPlatform = true }),
	)
	return pool
}

// respell changes the case of ASCII letters only (case-regular by construction).
func respellASCII(t *rapid.T, q string) string {
	// spacing variants are different queries (blanks are significant to the typo fallback):
	// they must never be answered from each other's cache entry
	switch rapid.IntRange(0, 9).Draw(t, "space-mode") {
	case 0:
		q = " " + q
	case 1:
		q = q + " "
	case 2:
		q = strings.Replace(q, " ", "  ", 1)
	case 3:
		q = strings.Replace(q, " ", "\t", 1)
	}
	mode := rapid.IntRange(0, 3).Draw(t, "case-mode")
	switch mode {
	case 0:
		return q
	case 1:
		return strings.ToUpper(q)
	case 2:
		return strings.Title(q) //nolint:staticcheck // ASCII only
	default:
		rs := []rune(q)
		for i, r := range rs {
			if r < 128 && unicode.IsLetter(r) && rapid.Bool().Draw(t, "flip") {
				if unicode.IsUpper(r) {
					rs[i] = unicode.ToLower(r)
				} else {
					rs[i] = unicode.ToUpper(r)
				}
			}
		}
		return string(rs)
	}
}

func asciiOnly(s string) string {
	return strings.Map(func(r rune) rune {
		if r >= 128 {
			return 'x'
		}
		return r
	}, s)
}

func c05DB(t *rapid.T, label string) []database.Command {
	if rapid.IntRange(0, 4).Draw(t, label+"-bulk") == 0 {
		// many entries sharing words: answers of 50-250 results under the large limits
		return gen.Bulk(t, rapid.IntRange(60, 250).Draw(t, label+"-n"), gen.CmdOpts{Platforms: true})
	}
	cmds := rapid.SliceOfN(c04Cmd(), 4, 14).Draw(t, label)
	return cmds
}

func TestC05_Cache(t *testing.T) {
	rec := stat.For("C05")
	rec.Rule("rapid state machine over CachedDatabase / MonitoredDatabase: search(q, options) with q from a pool of 6 queries x ASCII case re-spellings x spacing variants (leading / trailing / doubled blank, tab: distinct queries) and options from a pool of one-field deltas of a base set in every field (limit, boosts, pipeline-only/boost, fuzzy, threshold, NLP, term cap, all-platforms, platforms, no-cross), invalidate, enable/disable, cleanup, stats, update(commands'). Oracle after every search: ranked list (entry index, score bits) equals SearchUniversal on an independently loaded Database holding the current commands. Non-trivial = the sequence has a cache hit on a query searched before under a different option set or spelling, or a search after an update.")
	rec.RequireShare("delta-repeat-hit", 0.25)
	rec.RequireShare("hit-over-50-results", 0.02)
	rapid.Check(t, func(t *rapid.T) {
		cmds := c05DB(t, "cmds")
		fresh := gen.Load(t, cmds)
		useMon := rapid.Bool().Draw(t, "monitored")
		var cdb *database.CachedDatabase
		var mdb *database.MonitoredDatabase
		if useMon {
			mdb = database.NewMonitoredDatabase(gen.Load(t, cmds))
			cdb = mdb.CachedDatabase
		} else {
			cdb = database.NewCachedDatabase(gen.Load(t, cmds))
		}
		// a third of the cases: a result cache of 1-8 entries whose entries live 0 (for ever), 3 ms, 20 ms
		// or the usual 5 minutes (verif-tag hook; the defaults 1000 / 5 min are out of reach), so that
		// eviction and expiry happen inside the caching layer, between the searches of one history
		smallCache, cacheTTL, cacheCap := false, 5*time.Minute, 0
		if rapid.IntRange(0, 2).Draw(t, "small-cache") == 0 {
			smallCache = true
			cacheCap = rapid.SampledFrom([]int{1, 2, 3, 5, 8}).Draw(t, "capacity")
			cacheTTL = rapid.SampledFrom([]time.Duration{0, 3 * time.Millisecond, 20 * time.Millisecond, 5 * time.Minute}).Draw(t, "lifetime")
			database.VerifSetCacheParams(cdb, cacheCap, cacheTTL)
			if c := cdb.GetCacheStats()["search"].Capacity; c != cacheCap {
				t.Fatalf("result cache capacity %d after asking for %d", c, cacheCap)
			}
		}
		shortLife := smallCache && cacheTTL > 0 && cacheTTL < time.Second
		slept, evictedSeen, sweptSeen := false, false, false
		toks := gen.Tokens(cmds)
		if len(toks) < 2 {
			toks = append(toks, "find", "files")
		}
		tok := rapid.SampledFrom(toks)
		queries := []string{
			asciiOnly(gen.TextOf(tok, 1, 2).Draw(t, "q0")),
			asciiOnly(gen.TextOf(tok, 2, 3).Draw(t, "q1")),
			asciiOnly(gen.Typo(t, tok.Draw(t, "q2w"))),
			asciiOnly(gen.TextOf(tok, 6, 8).Draw(t, "q3")),
			asciiOnly("find " + tok.Draw(t, "q4w") + " files"),
			asciiOnly(tok.Draw(t, "q5w")[:2]),
			rapid.SampledFrom([]string{" ", "  ", "\t", " \t "}).Draw(t, "q6-blank"), // blank, not empty: the typo fallback still matches blanks
			// phrases the language heuristics look for in the raw text (re-spelled in other letter cases below)
			// longer than any cut-off a key function might apply, and differing only after byte 1000
			asciiOnly(strings.Repeat("pad ", 250) + tok.Draw(t, "q8w")),
			asciiOnly(strings.Repeat("pad ", 250) + tok.Draw(t, "q9w")),
			asciiOnly(rapid.SampledFrom([]string{"previewing", "looking at", "reading", "display", "overview of"}).Draw(t, "q7-view") + " " + tok.Draw(t, "q7w") + " " + rapid.SampledFrom([]string{"without opening it", "without editing", "without opening"}).Draw(t, "q7-clue")),
		}
		opts := c05Options(t, toks)
		var bigIdx []int
		for i, o := range opts {
			if o.Limit >= 75 {
				bigIdx = append(bigIdx, i)
			}
		}
		type hist struct {
			spelling string
			opt      int
		}
		seen := map[string][]hist{} // normalised query -> earlier (spelling, option index)
		var steps []string
		var past [][2]int
		hits, deltaRepeatHit, afterUpdate, updated := 0, false, false, false
		bigHit := false
		mutatedRepeat, callerEdited := false, false
		var redo *[2]int
		lastQ := ""
		enabled := true
		statsHits := func() int64 { return cdb.GetCacheStats()["search"].Hits }
		acts := map[string]func(*rapid.T){
			"search": func(t *rapid.T) {
				qi := rapid.IntRange(0, len(queries)-1).Draw(t, "qi")
				oi := rapid.IntRange(0, len(opts)-1).Draw(t, "oi")
				if len(cmds) > 50 && rapid.IntRange(0, 2).Draw(t, "big-limit") == 0 {
					oi = rapid.SampledFrom(bigIdx).Draw(t, "big-oi")
				}
				sameSpelling := false
				if redo != nil {
					qi, oi = redo[0], redo[1] // the very same request again, its options changed in place meanwhile
					redo = nil
					sameSpelling = rapid.IntRange(0, 3).Draw(t, "same-spelling") > 0
				} else if len(past) > 0 {
					// repeats are what exercise the cache: re-issue an earlier request
					// unchanged, or with only its option set changed
					switch rapid.IntRange(0, 4).Draw(t, "repeat-mode") {
					case 4: // the same query under the option set listed next to an earlier one (twins sit side by side)
						p := past[rapid.IntRange(0, len(past)-1).Draw(t, "past")]
						qi, oi = p[0], p[1]
						if oi >= 0 {
							oi += rapid.SampledFrom([]int{1, -1, 2}).Draw(t, "neighbour")
							if oi < 0 || oi >= len(opts) {
								oi = p[1]
							}
						}
					case 0, 1:
						p := past[rapid.IntRange(0, len(past)-1).Draw(t, "past")]
						qi, oi = p[0], p[1]
					case 2:
						qi = past[rapid.IntRange(0, len(past)-1).Draw(t, "past")][0]
					}
				}
				past = append(past, [2]int{qi, oi})
				q := respellASCII(t, queries[qi])
				if sameSpelling && lastQ != "" {
					q = lastQ
				}
				lastQ = q
				o := opts[oi]
				variant := rapid.SampledFrom([]string{"options", "options", "simple", "monitored", "monitored-simple"}).Draw(t, "variant")
				if !useMon && strings.HasPrefix(variant, "monitored") {
					variant = "options"
				}
				before := statsHits()
				var got []database.SearchResult
				switch variant {
				case "options":
					got = cdb.SearchWithOptionsAndCache(q, o)
				case "simple":
					o = database.SearchOptions{Limit: o.Limit}
					oi = -1 - o.Limit
					got = cdb.SearchWithCache(q, o.Limit)
				case "monitored":
					got = mdb.SearchWithOptionsAndMonitoring(q, o)
				case "monitored-simple":
					o = database.SearchOptions{Limit: o.Limit}
					oi = -1 - o.Limit
					got = mdb.SearchWithMonitoring(q, o.Limit)
				}
				wasHit := statsHits() > before
				want := fresh.SearchUniversal(q, o)
				a, b := rank(cdb.Database, got), rank(fresh, want)
				steps = append(steps, fmt.Sprintf("search[%s](%q, opt#%d)=%d%s", variant, q, oi, len(got), map[bool]string{true: " HIT", false: ""}[wasHit]))
				if !rankEq(a, b) {
					t.Fatalf("cached layer answered %s, an uncached search of the current database answers %s\n query=%q options=%v hit=%v enabled=%v\n steps=%v\n db=%v", rankStr(a), rankStr(b), q, optBrief(o), wasHit, enabled, steps, gen.BriefDB(cmds, 14))
				}
				if rapid.Bool().Draw(t, "caller-edits-result") {
					// the returned list belongs to the caller: it is re-sorted, re-scored and cleared here,
					// and no later answer may show a trace of that
					for i, j := 0, len(got)-1; i < j; i, j = i+1, j-1 {
						got[i], got[j] = got[j], got[i]
					}
					for i := range got {
						got[i].Score = -1 - float64(i)
					}
					if len(got) > 1 {
						got[0].Command = got[len(got)-1].Command
					}
					callerEdited = true
				}
				key := strings.ToLower(strings.TrimSpace(q))
				if wasHit && len(got) > 50 {
					bigHit = true
				}
				if wasHit {
					hits++
					for _, h := range seen[key] {
						if h.spelling != q || h.opt != oi {
							deltaRepeatHit = true
						}
					}
				}
				seen[key] = append(seen[key], hist{q, oi})
				if updated {
					afterUpdate = true
				}
			},
			"mutate": func(t *rapid.T) {
				// callers re-use one options value and change it in place between requests: the boost
				// map and the platform list are the same objects before and after
				var cand []int
				for i, o := range opts {
					// only the plain one-word-boost and one-platform entries are edited in place: the twin
					// entries (weights a hair apart, split / joined lists) must stay what they are
					plainBoost := len(o.ContextBoosts) == 1 && !math.IsInf(o.PipelineBoost, 0)
					for _, v := range o.ContextBoosts {
						if v != 3 && v != 1.5 && v != 1.2 && v != 2.5 && v != 7 {
							plainBoost = false
						}
					}
					if plainBoost || (len(o.Platforms) == 1 && !math.IsInf(o.PipelineBoost, 0) && len(o.ContextBoosts) == 0) {
						cand = append(cand, i)
					}
				}
				i := rapid.SampledFrom(cand).Draw(t, "which-opt")
				lastWord := ""
				if len(past) > 0 {
					if last := past[len(past)-1]; last[1] >= 0 {
						for _, c := range cand {
							if c == last[1] {
								i = c // the options of the request just made
							}
						}
					}
					if f := strings.Fields(strings.ToLower(queries[past[len(past)-1][0]])); len(f) > 0 {
						lastWord = f[0]
					}
				}
				if m := opts[i].ContextBoosts; len(m) > 0 {
					nw := rapid.SampledFrom([]float64{1.2, 2.5, 3, 7}).Draw(t, "new-weight")
					for k, v := range m {
						if !math.IsInf(v, 0) {
							m[k] = nw
						}
					}
					if lastWord != "" && rapid.Bool().Draw(t, "boost-last-word") {
						m[lastWord] = nw // a new key in the same map: a word of the query just searched
					}
				} else {
					opts[i].Platforms[0] = rapid.SampledFrom([]string{"windows", "macos", "linux"}).Draw(t, "new-platform")
				}
				steps = append(steps, fmt.Sprintf("mutate(opt#%d)", i))
				if len(past) > 0 && past[len(past)-1][1] == i && rapid.IntRange(0, 3).Draw(t, "repeat-after-mutate") > 0 {
					mutatedRepeat = true
					redo = &[2]int{past[len(past)-1][0], i}
				}
			},
			"invalidate": func(t *rapid.T) {
				cdb.InvalidateCache()
				steps = append(steps, "invalidate")
			},
			"enable": func(t *rapid.T) {
				enabled = rapid.Bool().Draw(t, "on")
				cdb.EnableCache(enabled)
				if cdb.IsCacheEnabled() != enabled {
					t.Fatalf("IsCacheEnabled()=%v after EnableCache(%v)", cdb.IsCacheEnabled(), enabled)
				}
				steps = append(steps, fmt.Sprintf("enable(%v)", enabled))
			},
			"cleanup": func(t *rapid.T) {
				sizeBefore := cdb.GetCacheStats()["search"].Size
				n := cdb.CleanupExpiredCache()["search"]
				if n != 0 && !shortLife {
					t.Fatalf("expiry sweep removed %d entries although nothing can be older than the lifetime %v; steps=%v", n, cacheTTL, steps)
				}
				if n < 0 || n > sizeBefore {
					t.Fatalf("expiry sweep reports %d removed entries, the cache held %d; steps=%v", n, sizeBefore, steps)
				}
				if after := cdb.GetCacheStats()["search"].Size; enabled && after != sizeBefore-n {
					t.Fatalf("expiry sweep reports %d removed entries, size went %d -> %d; steps=%v", n, sizeBefore, after, steps)
				}
				if n > 0 {
					sweptSeen = true
				}
				steps = append(steps, fmt.Sprintf("cleanup=%d", n))
			},
			"update": func(t *rapid.T) {
				prevCmds := cmds
				cmds = c05DB(t, "cmds2")
				switch rapid.IntRange(0, 9).Draw(t, "tiny-replacement") {
				case 0:
					cmds = nil // replaced by an empty database: every cached answer is stale
				case 1:
					cmds = cmds[:1]
				case 2, 3, 4:
					// nearly the database that was there: the same entries, one of them with a word moved across a
					// field boundary (keyword <-> tag, command <-> description), its pipeline flag flipped, or two
					// entries swapped - the same length, the same text taken together, another answer
					if len(prevCmds) > 0 {
						cmds = cloneCmds(prevCmds)
						i := rapid.IntRange(0, len(cmds)-1).Draw(t, "near-entry")
						c := &cmds[i]
						c.Keywords, c.Tags = append([]string{}, c.Keywords...), append([]string{}, c.Tags...)
						switch rapid.IntRange(0, 5).Draw(t, "near-edit") {
						case 0:
							if n := len(c.Keywords); n > 0 {
								c.Tags = append([]string{c.Keywords[n-1]}, c.Tags...)
								c.Keywords = c.Keywords[:n-1]
							} else {
								c.Tags = append(c.Tags, "files")
							}
						case 1:
							if len(c.Tags) > 0 {
								c.Keywords = append(c.Keywords, c.Tags[0])
								c.Tags = c.Tags[1:]
							} else {
								c.Keywords = append(c.Keywords, "files")
							}
						case 2:
							if fs := strings.Fields(c.Command); len(fs) > 1 {
								c.Command = strings.Join(fs[:len(fs)-1], " ")
								c.Description = strings.TrimSpace(fs[len(fs)-1] + " " + c.Description)
							} else {
								c.Description += " files"
							}
						case 3:
							c.Pipeline = !c.Pipeline
						case 4:
							j := rapid.IntRange(0, len(cmds)-1).Draw(t, "near-swap")
							cmds[i], cmds[j] = cmds[j], cmds[i]
						default:
							c.Niche, c.Platform = strings.Join(c.Platform, " "), strings.Fields(c.Niche)
						}
					}
				}
				src := gen.Load(t, cmds)
				if useMon && rapid.Bool().Draw(t, "via-monitor") {
					if err := mdb.LoadDatabaseWithMonitoring(src.Commands); err != nil {
						t.Fatalf("LoadDatabaseWithMonitoring: %v", err)
					}
				} else {
					cdb.UpdateDatabase(src.Commands)
				}
				fresh = gen.Load(t, cmds)
				seen = map[string][]hist{}
				past = nil
				updated = true
				steps = append(steps, fmt.Sprintf("update(%d commands)", len(cmds)))
			},
			"sleep": func(t *rapid.T) {
				d := time.Duration(rapid.IntRange(1, 26).Draw(t, "ms")) * time.Millisecond
				time.Sleep(d)
				slept = true
				steps = append(steps, fmt.Sprintf("sleep(%v)", d))
			},
			"": func(t *rapid.T) {
				s := cdb.GetCacheStats()["search"]
				if s.Size > s.Capacity || s.Size < 0 {
					t.Fatalf("cache size %d outside [0,%d]", s.Size, s.Capacity)
				}
				if smallCache && s.Capacity != cacheCap {
					t.Fatalf("cache capacity changed from %d to %d; steps=%v", cacheCap, s.Capacity, steps)
				}
				if s.Evictions > 0 {
					evictedSeen = true
				}
			},
		}
		rare := []string{"invalidate", "enable", "enable", "cleanup", "cleanup", "update", "mutate", "mutate", "mutate"}
		if shortLife {
			rare = append(rare, "sleep", "sleep", "sleep", "sleep", "cleanup")
		}
		t.Repeat(map[string]func(*rapid.T){
			"":        acts[""],
			"search":  acts["search"],
			"search2": acts["search"],
			"search3": acts["search"],
			"search4": acts["search"],
			"rare":    func(t *rapid.T) { acts[rapid.SampledFrom(rare).Draw(t, "rare-op")](t) },
		})
		labels := []string{}
		if hits > 0 {
			labels = append(labels, "has-hit")
		}
		if deltaRepeatHit {
			labels = append(labels, "delta-repeat-hit")
		}
		if afterUpdate {
			labels = append(labels, "search-after-update")
		}
		if useMon {
			labels = append(labels, "monitored")
		}
		if bigHit {
			labels = append(labels, "hit-over-50-results")
		}
		if mutatedRepeat {
			labels = append(labels, "repeat-after-in-place-change")
		}
		if smallCache {
			labels = append(labels, "small-cache")
		}
		if callerEdited && hits > 0 {
			labels = append(labels, "caller-edited-results")
		}
		if evictedSeen {
			labels = append(labels, "evicted-inside-layer")
		}
		if slept && hits > 0 {
			labels = append(labels, "short-lifetime-with-hit")
		}
		if sweptSeen {
			labels = append(labels, "sweep-removed-expired")
		}
		if len(steps) > 40 {
			steps = append(steps[:40], fmt.Sprintf("... %d more", len(steps)-40))
		}
		rec.Case(deltaRepeatHit || afterUpdate, map[string]any{"db": gen.BriefDB(cmds, 5), "queries": queries, "steps": steps}, labels...)
	})
}

// TestC05_Overflow drives one cached database far past the capacity of its result cache
// (twice around), then repeats earlier requests: recycled cache slots must never serve
// another request's answer.
func TestC05_Overflow(t *testing.T) {
	rec := stat.For("C05")
	rec.Rule("overflow histories: one cached database receives 2.2x its cache capacity in distinct requests (query x limit), interleaved with repeats of earlier requests in other letter cases; every answer is compared with an uncached search on an independent database.")
	rapid.Check(t, func(t *rapid.T) {
		cmds := c05DB(t, "cmds")
		fresh := gen.Load(t, cmds)
		cdb := database.NewCachedDatabase(gen.Load(t, cmds))
		capacity := cdb.GetCacheStats()["search"].Capacity
		if capacity <= 0 || capacity > 5000 {
			t.Skip("unexpected cache capacity")
		}
		toks := gen.Tokens(cmds)
		if len(toks) == 0 {
			toks = []string{"find"}
		}
		total := capacity*2 + capacity/5
		type req struct {
			q string
			o database.SearchOptions
		}
		var issued []req
		check := func(r req, what string) {
			got := rank(cdb.Database, cdb.SearchWithOptionsAndCache(r.q, r.o))
			want := rank(fresh, fresh.SearchUniversal(r.q, r.o))
			if !rankEq(got, want) {
				t.Fatalf("%s: cached layer answered %s, uncached search answers %s (query %q limit %d, after %d requests, cache capacity %d)", what, rankStr(got), rankStr(want), r.q, r.o.Limit, len(issued), capacity)
			}
		}
		stride := rapid.IntRange(40, 160).Draw(t, "repeat-every")
		for i := 0; i < total; i++ {
			// distinct requests: a database word plus a counter word, under varying limits
			r := req{fmt.Sprintf("%s n%d", toks[i%len(toks)], i), database.SearchOptions{Limit: 1 + i%7, UseFuzzy: true, AllPlatforms: i%2 == 0}}
			check(r, "first time")
			issued = append(issued, r)
			if i%stride == stride-1 {
				back := issued[rapid.IntRange(0, len(issued)-1).Draw(t, "which")]
				back.q = strings.ToUpper(back.q)
				check(back, "repeat")
			}
		}
		for i := 0; i < 40; i++ {
			back := issued[rapid.IntRange(0, len(issued)-1).Draw(t, "tail")]
			check(back, "repeat after overflow")
		}
		// and every request of the last 1.2 capacities once more, newest first: whatever slot was recycled, its key is asked again
		for i := len(issued) - 1; i >= 0 && i >= len(issued)-capacity-capacity/5; i-- {
			check(issued[i], "sweep after overflow")
		}
		rec.Case(true, map[string]any{"overflow": true, "capacity": capacity, "requests": total, "db": gen.BriefDB(cmds, 3)}, "overflow")
	})
}
