package props

import (
	"bytes"
	"encoding/base64"
	"encoding/binary"
	"fmt"
	"io"
	"log"
	"math"
	"os"
	"path/filepath"
	"strconv"
	"strings"
	"syscall"
	"testing"
	"time"

	"github.com/Vedant9500/WTF/internal/constants"
	"github.com/Vedant9500/WTF/internal/database"
	"github.com/Vedant9500/WTF/internal/embedding"
	"github.com/Vedant9500/WTF/verifharness/gen"
	"github.com/Vedant9500/WTF/verifharness/proc"
	"github.com/Vedant9500/WTF/verifharness/stat"
	"pgregory.net/rapid"
)

// C19 — semantic embeddings are strictly optional and their files cannot hurt.

const c19MemCap = 2 << 30 // RLIMIT_AS for the loader child

func init() {
	// child: load every file pair of a batch directory under an address-space cap.
	// Prints "BEGIN i" before and "END i <summary>" after each pair so the parent knows
	// which input killed it.
	proc.RegisterHelper("c19load", func(args []string) int {
		if len(args) != 2 {
			return 96
		}
		n, _ := strconv.Atoi(args[1])
		lim := syscall.Rlimit{Cur: c19MemCap, Max: c19MemCap}
		if err := syscall.Setrlimit(syscall.RLIMIT_AS, &lim); err != nil {
			fmt.Println("SETRLIMIT-FAILED", err)
			return 95
		}
		for i := 0; i < n; i++ {
			fmt.Printf("BEGIN %d\n", i)
			fmt.Printf("END %d %s\n", i, c19LoadPair(filepath.Join(args[0], fmt.Sprintf("glove-%d.bin", i)), filepath.Join(args[0], fmt.Sprintf("cmd-%d.bin", i))))
		}
		return 0
	})
}

// c19LoadPair loads a word-vector file and a command-embedding file; the summary is
// "words=<n|err> cmds=<n|err|skip> [PANIC ...]".
func c19LoadPair(glove, cmd string) (summary string) {
	defer func() {
		if r := recover(); r != nil {
			summary = fmt.Sprintf("PANIC %v", r)
		}
	}()
	idx, err := embedding.LoadWordVectors(glove)
	if err != nil {
		if idx != nil && idx.VocabSize() < 0 {
			return "PANIC negative vocab"
		}
		// command embeddings need an index; use an empty one like a fresh install would not have
		idx = &embedding.Index{Dimension: 100, WordVectors: map[string][]float32{}}
		summary = "words=err"
	} else {
		summary = fmt.Sprintf("words=%d", idx.VocabSize())
	}
	if err := idx.LoadCommandEmbeddings(cmd); err != nil {
		summary += " cmds=err"
	} else {
		summary += fmt.Sprintf(" cmds=%d", idx.NumCommands())
		_ = idx.SemanticScores(make([]float32, idx.Dimension))
	}
	_ = idx.EmbedQuery("find files")
	// the same command file read into an index that expects whatever dimension the file names (an
	// index value made by the program: the zero value, or one with a small dimension)
	if data, err := os.ReadFile(cmd); err == nil && len(data) >= 8 {
		if d := binary.LittleEndian.Uint32(data[4:8]); d <= 4 {
			own := &embedding.Index{Dimension: int(d)}
			if err := own.LoadCommandEmbeddings(cmd); err != nil {
				summary += " own-dim=err"
			} else {
				summary += fmt.Sprintf(" own-dim=%d", own.NumCommands())
				_ = own.SemanticScores(make([]float32, own.Dimension))
			}
		}
	}
	return summary
}

type c19File struct {
	Kind  string
	Bytes []byte
	Words int // valid files: number of distinct words / embeddings written
}

func le32(v uint32) []byte { b := make([]byte, 4); binary.LittleEndian.PutUint32(b, v); return b }
func le16(v uint16) []byte { b := make([]byte, 2); binary.LittleEndian.PutUint16(b, v); return b }

func c19Vec(t *rapid.T, dim int) []byte {
	var buf bytes.Buffer
	for i := 0; i < dim; i++ {
		binary.Write(&buf, binary.LittleEndian, float32(rapid.Float64Range(-2, 2).Draw(t, "v")))
	}
	return buf.Bytes()
}

func c19Glove(t *rapid.T) c19File {
	kind := rapid.SampledFrom([]string{"valid", "valid", "huge-count", "huge-count", "count+1", "truncated", "long-word", "raw", "empty", "zero-count"}).Draw(t, "glove-kind")
	var body bytes.Buffer
	n := rapid.IntRange(0, 4).Draw(t, "n-words")
	seen := map[string]bool{}
	for i := 0; i < n; i++ {
		w := rapid.SampledFrom([]string{"find", "files", "tar", "", "x", "ünï", "find"}).Draw(t, "word")
		seen[w] = true
		body.Write(le16(uint16(len(w))))
		body.WriteString(w)
		body.Write(c19Vec(t, 100))
	}
	switch kind {
	case "valid":
		return c19File{kind, append(le32(uint32(n)), body.Bytes()...), len(seen)}
	case "huge-count":
		c := rapid.SampledFrom([]uint32{1 << 31, 0xFFFFFFFF, 4000000000, 1 << 28, 100000000}).Draw(t, "count")
		return c19File{kind, append(le32(c), body.Bytes()...), -1}
	case "count+1":
		return c19File{kind, append(le32(uint32(n+1)), body.Bytes()...), -1}
	case "truncated":
		all := append(le32(uint32(n)), body.Bytes()...)
		return c19File{kind, all[:rapid.IntRange(0, len(all)).Draw(t, "cut")], -1}
	case "long-word":
		b := append(le32(1), le16(65535)...)
		b = append(b, bytes.Repeat([]byte("a"), rapid.SampledFrom([]int{0, 10, 65535}).Draw(t, "have"))...)
		return c19File{kind, b, -1}
	case "raw":
		return c19File{kind, rapid.SliceOfN(rapid.Byte(), 0, 64).Draw(t, "raw"), -1}
	case "empty":
		return c19File{kind, nil, -1}
	default:
		return c19File{kind, le32(0), 0}
	}
}

func c19Cmd(t *rapid.T) c19File {
	kind := rapid.SampledFrom([]string{"valid", "valid", "huge-count", "huge-count", "wrong-dim", "truncated", "raw", "missing-rows", "small-dim"}).Draw(t, "cmd-kind")
	n := rapid.IntRange(0, 4).Draw(t, "n-cmds")
	var body bytes.Buffer
	for i := 0; i < n; i++ {
		body.Write(c19Vec(t, 100))
	}
	hdr := func(c, d uint32) []byte { return append(le32(c), le32(d)...) }
	switch kind {
	case "valid":
		return c19File{kind, append(hdr(uint32(n), 100), body.Bytes()...), n}
	case "huge-count":
		c := rapid.SampledFrom([]uint32{1 << 31, 0xFFFFFFFF, 3000000000, 1 << 27}).Draw(t, "count")
		return c19File{kind, append(hdr(c, 100), body.Bytes()...), -1}
	case "small-dim":
		// dimensions 0..4 with a count that is honest, a little too big, or huge
		d := rapid.SampledFrom([]uint32{0, 0, 1, 2, 4}).Draw(t, "small-dim")
		c := rapid.SampledFrom([]uint32{0, 1, 3, 20000000, 1 << 28, 1 << 31, 0xFFFFFFFF}).Draw(t, "small-dim-count")
		return c19File{kind, append(hdr(c, d), rapid.SliceOfN(rapid.Byte(), 0, 64).Draw(t, "small-dim-body")...), -1}
	case "wrong-dim":
		return c19File{kind, append(hdr(uint32(n), rapid.SampledFrom([]uint32{0, 1, 99, 101, 0xFFFFFFFF}).Draw(t, "dim")), body.Bytes()...), -1}
	case "truncated":
		all := append(hdr(uint32(n), 100), body.Bytes()...)
		return c19File{kind, all[:rapid.IntRange(0, len(all)).Draw(t, "cut")], -1}
	case "missing-rows":
		return c19File{kind, append(hdr(uint32(n+2), 100), body.Bytes()...), -1}
	default:
		return c19File{kind, rapid.SliceOfN(rapid.Byte(), 0, 64).Draw(t, "raw"), -1}
	}
}

func TestC19_Files(t *testing.T) {
	rec := stat.For("C19")
	rec.Rule("(A) byte strings as word-vector and command-embedding files from a structured generator (valid small files; header counts 2^31, 2^32-1, n+1; word length 65535; truncation at any byte; wrong dimension; raw bytes), loaded in batches by a child under RLIMIT_AS = 2 GiB. Oracle: every load returns vectors or an error - no panic, no out-of-memory death of the child (memory out of proportion to a file of < 64 KiB); valid files load with the written counts. Non-trivial = the header passes the first read (file has >= 4 bytes).")
	batch := 40
	rapid.Check(t, func(t *rapid.T) {
		dir := mkdirWork("c19-")
		defer os.RemoveAll(dir)
		files := make([][2]c19File, batch)
		for i := range files {
			files[i] = [2]c19File{c19Glove(t), c19Cmd(t)}
			os.WriteFile(filepath.Join(dir, fmt.Sprintf("glove-%d.bin", i)), files[i][0].Bytes, 0o644)
			os.WriteFile(filepath.Join(dir, fmt.Sprintf("cmd-%d.bin", i)), files[i][1].Bytes, 0o644)
		}
		r := proc.Run(proc.Cmd{Helper: "c19load", Args: []string{dir, strconv.Itoa(batch)}, FSize: -1, Timeout: 120 * time.Second})
		ends := map[int]string{}
		lastBegin := -1
		for _, line := range strings.Split(r.Stdout, "\n") {
			var i int
			if n, _ := fmt.Sscanf(line, "BEGIN %d", &i); n == 1 {
				lastBegin = i
			}
			if strings.HasPrefix(line, "END ") {
				parts := strings.SplitN(line, " ", 3)
				k, _ := strconv.Atoi(parts[1])
				ends[k] = parts[2]
			}
		}
		if strings.Contains(r.Stdout, "SETRLIMIT-FAILED") {
			t.Skip("cannot set RLIMIT_AS")
		}
		for i := 0; i < batch; i++ {
			sum, ok := ends[i]
			g, c := files[i][0], files[i][1]
			desc := fmt.Sprintf("glove file kind=%s %d bytes, command file kind=%s %d bytes", g.Kind, len(g.Bytes), c.Kind, len(c.Bytes))
			if !ok {
				if i == lastBegin {
					saveCase("C19", "files", map[string]any{"test": "TestC19_Replay", "glove": base64.StdEncoding.EncodeToString(g.Bytes), "cmd": base64.StdEncoding.EncodeToString(c.Bytes)})
					tail := r.Stderr
					if len(tail) > 600 {
						tail = tail[:600]
					}
					t.Fatalf("loader child died (exit %d, signal %q) while loading %s under a %d MiB address-space cap:\n%s", r.ExitCode, r.Signal, desc, c19MemCap>>20, tail)
				}
				continue // inputs after the fatal one were never reached
			}
			if strings.HasPrefix(sum, "PANIC") {
				saveCase("C19", "files", map[string]any{"test": "TestC19_Replay", "glove": base64.StdEncoding.EncodeToString(g.Bytes), "cmd": base64.StdEncoding.EncodeToString(c.Bytes)})
				t.Fatalf("loader panicked on %s: %s", desc, sum)
			}
			if g.Kind == "valid" || g.Kind == "zero-count" {
				if !strings.HasPrefix(sum, fmt.Sprintf("words=%d ", g.Words)) {
					t.Fatalf("valid word-vector file with %d distinct words loaded as %q", g.Words, sum)
				}
			}
			if c.Kind == "valid" && !strings.HasSuffix(sum, fmt.Sprintf("cmds=%d", c.Words)) {
				t.Fatalf("valid command-embedding file with %d rows loaded as %q", c.Words, sum)
			}
			rec.Case(len(g.Bytes) >= 4 || len(c.Bytes) >= 8, map[string]any{"glove_kind": g.Kind, "glove_bytes": len(g.Bytes), "cmd_kind": c.Kind, "cmd_bytes": len(c.Bytes), "result": sum}, "files", "glove:"+g.Kind, "cmd:"+c.Kind)
		}
	})
}

// TestC19_Replay re-runs one saved file pair in a capped child.
func TestC19_Replay(t *testing.T) {
	var c struct{ Glove, Cmd string }
	if !replayCase("C19", "files", &c) {
		t.Skip("no replay case")
	}
	dir := mkdirWork("c19r-")
	defer os.RemoveAll(dir)
	g, _ := base64.StdEncoding.DecodeString(c.Glove)
	m, _ := base64.StdEncoding.DecodeString(c.Cmd)
	os.WriteFile(filepath.Join(dir, "glove-0.bin"), g, 0o644)
	os.WriteFile(filepath.Join(dir, "cmd-0.bin"), m, 0o644)
	r := proc.Run(proc.Cmd{Helper: "c19load", Args: []string{dir, "1"}, FSize: -1, Timeout: 120 * time.Second})
	if !strings.Contains(r.Stdout, "END 0") || strings.Contains(r.Stdout, "PANIC") {
		t.Fatalf("loader child failed on the saved files: exit %d\n%s\n%s", r.ExitCode, r.Stdout, clip(r.Stderr))
	}
}

func c19Float32() *rapid.Generator[float32] {
	return rapid.OneOf(
		rapid.Float32Range(-10, 10),
		rapid.SampledFrom([]float32{0, 1, -1, math.MaxFloat32, -math.MaxFloat32, math.SmallestNonzeroFloat32, -math.SmallestNonzeroFloat32, 1e-30, 1e30}),
		rapid.Float32(),
	)
}

func finite32(v []float32) bool {
	for _, x := range v {
		if math.IsNaN(float64(x)) || math.IsInf(float64(x), 0) {
			return false
		}
	}
	return true
}

func TestC19_Cosine(t *testing.T) {
	rec := stat.For("C19")
	rec.Rule("(B) float32 vectors of length 0-200 incl. subnormals, +-MaxFloat32, mismatched lengths, zero vectors. Oracle: cos(a,b) == cos(b,a) bitwise; |cos| <= 1+1e-12; 0 for empty, zero or mismatched vectors; non-finite components only for the no-crash claim.")
	rapid.Check(t, func(t *rapid.T) {
		n := rapid.OneOf(rapid.IntRange(0, 8), rapid.IntRange(0, 200)).Draw(t, "n")
		m := n
		if rapid.IntRange(0, 5).Draw(t, "mismatch") == 0 {
			m = rapid.IntRange(0, 200).Draw(t, "m")
		}
		a := rapid.SliceOfN(c19Float32(), n, n).Draw(t, "a")
		b := rapid.SliceOfN(c19Float32(), m, m).Draw(t, "b")
		if rapid.IntRange(0, 6).Draw(t, "zero") == 0 {
			for i := range a {
				a[i] = 0
			}
		}
		if rapid.IntRange(0, 6).Draw(t, "same") == 0 && n == m {
			copy(b, a)
		}
		ab, ba := embedding.CosineSimilarity(a, b), embedding.CosineSimilarity(b, a)
		if !finite32(a) || !finite32(b) {
			rec.Case(false, map[string]any{"non_finite": true, "n": n}, "cosine", "cosine-non-finite")
			return
		}
		if math.Float64bits(ab) != math.Float64bits(ba) {
			t.Fatalf("cosine not symmetric: cos(a,b)=%v cos(b,a)=%v a=%v b=%v", ab, ba, a, b)
		}
		if math.IsNaN(ab) || math.Abs(ab) > 1+1e-12 {
			t.Fatalf("cosine out of range: %v a=%v b=%v", ab, a, b)
		}
		zero := func(v []float32) bool {
			for _, x := range v {
				if x != 0 {
					return false
				}
			}
			return true
		}
		if (n != m || n == 0 || zero(a) || zero(b)) && ab != 0 {
			t.Fatalf("cosine of empty, zero or mismatched vectors is %v, want 0 (len %d vs %d)", ab, n, m)
		}
		rec.Case(n == m && n > 0 && !zero(a) && !zero(b), map[string]any{"len_a": n, "len_b": m, "cos": ab}, "cosine")
	})
}

func TestC19_Search(t *testing.T) {
	rec := stat.For("C19")
	rec.Rule("(C) databases x queries with an in-memory index injected through the verif setter: random word vectors for the vocabulary, random command embeddings (also NaN/Inf components, fewer embeddings than commands). Oracle: LoadEmbeddings() with no asset files changes nothing; with an index the result set at Limit >= N is unchanged, every score' in [score, score*(1+alpha)*(1+1e-12)], list non-increasing. Non-trivial = at least one score was raised.")
	log.SetOutput(io.Discard) // LoadEmbeddings logs a note on every call
	rapid.Check(t, func(t *rapid.T) {
		cmds, cls := gen.DB(t, gen.CmdOpts{Sized: true, Heavy: true}, []int{0, 1, 3, 10, 1})
		db := gen.Load(t, cmds)
		made := rapid.SampledFrom([]string{"loaded", "loaded", "made", "made+indexed"}).Draw(t, "database-made-by")
		switch made {
		case "made": // entries made by the program, everything built on first use
			db = &database.Database{Commands: cloneCmds(cmds)}
		case "made+indexed": // the same with the exported index builder called up front (no reranker state yet)
			db = &database.Database{Commands: cloneCmds(cmds)}
			db.BuildUniversalIndex()
		}
		q, _ := gen.Query(t, cmds, []gen.QueryClass{"vocab", "vocab", "nlp", "mixed", "typo"})
		opt := gen.Options(t, gen.OptSpec{N: len(cmds), BigLimit: true, NoPlatforms: true})
		base := rank(db, db.SearchUniversal(q, opt))
		if err := db.LoadEmbeddings(); err != nil || db.HasEmbeddings() {
			t.Fatalf("LoadEmbeddings without asset files: err=%v attached=%v", err, db.HasEmbeddings())
		}
		if again := rank(db, db.SearchUniversal(q, opt)); !rankEq(base, again) {
			t.Fatalf("search changed after LoadEmbeddings() found no files:\n before %s\n after  %s", rankStr(base), rankStr(again))
		}
		dim := rapid.SampledFrom([]int{3, 8, 100}).Draw(t, "dim")
		hostile := rapid.IntRange(0, 5).Draw(t, "hostile") == 0
		comp := rapid.Float32Range(-1, 1)
		if hostile {
			comp = rapid.OneOf(rapid.Float32Range(-1, 1), rapid.SampledFrom([]float32{float32(math.NaN()), float32(math.Inf(1)), float32(math.Inf(-1)), math.MaxFloat32}))
		}
		idx := &embedding.Index{Dimension: dim, WordVectors: map[string][]float32{}}
		for _, w := range append(gen.Tokens(cmds), "find", "files", "show") {
			if rapid.IntRange(0, 3).Draw(t, "has-vec") > 0 {
				idx.WordVectors[w] = rapid.SliceOfN(comp, dim, dim).Draw(t, "wv")
			}
		}
		nEmb := len(cmds)
		if rapid.IntRange(0, 4).Draw(t, "fewer") == 0 {
			nEmb = rapid.IntRange(0, len(cmds)).Draw(t, "n-emb")
		}
		for i := 0; i < nEmb; i++ {
			if rapid.IntRange(0, 5).Draw(t, "zero-emb") == 0 {
				idx.CmdEmbeddings = append(idx.CmdEmbeddings, make([]float32, dim)) // zero vector: a command made of unknown words only
				continue
			}
			idx.CmdEmbeddings = append(idx.CmdEmbeddings, rapid.SliceOfN(comp, dim, dim).Draw(t, "ce"))
		}
		database.VerifSetEmbeddingIndex(db, idx)
		if rapid.Bool().Draw(t, "reused-index") {
			// the index is a long-lived value too: search once, replace its command
			// embeddings by a same-sized set (a reload of a regenerated file), search again
			db.SearchUniversal(q, opt)
			for i := range idx.CmdEmbeddings {
				scale := rapid.SampledFrom([]float32{1, 0.01, 100}).Draw(t, "rescale")
				v := rapid.SliceOfN(comp, dim, dim).Draw(t, "ce2")
				for j := range v {
					v[j] *= scale
				}
				idx.CmdEmbeddings[i] = v
			}
		}
		if nEmb > 0 && rapid.IntRange(0, 2).Draw(t, "reloaded-from-files") == 0 {
			// the same long-lived index, its command embeddings read from a file and then read AGAIN from a
			// regenerated file of the same shape whose rows have other magnitudes and which is often cut
			// off after some rows (the second load then fails half-way): whatever rows the index is left
			// with, the stage still only raises scores, by the bounded factor
			encode := func(rows [][]float32, scale float32, cut int) []byte {
				buf := make([]byte, 8, 8+len(rows)*dim*4)
				binary.LittleEndian.PutUint32(buf[0:], uint32(len(rows)))
				binary.LittleEndian.PutUint32(buf[4:], uint32(dim))
				for _, r := range rows {
					for _, x := range r {
						buf = binary.LittleEndian.AppendUint32(buf, math.Float32bits(x*scale))
					}
				}
				if cut >= 0 && cut < len(buf) {
					buf = buf[:cut]
				}
				return buf
			}
			fa := gen.TempPath(".emb")
			defer os.Remove(fa)
			os.WriteFile(fa, encode(idx.CmdEmbeddings, 1, -1), 0o644)
			errA := idx.LoadCommandEmbeddings(fa)
			db.SearchUniversal(q, opt)
			scale := rapid.SampledFrom([]float32{1, 8, 100, 0.01, 3}).Draw(t, "reload-scale")
			cut := -1
			if rapid.IntRange(0, 3).Draw(t, "reload-cut") > 0 {
				cut = 8 + rapid.IntRange(0, nEmb*dim*4-1).Draw(t, "reload-cut-at")
			}
			next := make([][]float32, nEmb)
			for i := range next {
				next[i] = rapid.SliceOfN(comp, dim, dim).Draw(t, "ce3")
			}
			os.WriteFile(fa, encode(next, scale, cut), 0o644)
			errB := idx.LoadCommandEmbeddings(fa)
			if errA != nil || (cut < 0 && errB != nil) || (cut >= 0 && errB == nil) {
				t.Fatalf("command embeddings file: complete file -> %v, regenerated file (cut at %d of %d bytes) -> %v", errA, cut, 8+nEmb*dim*4, errB)
			}
			rec.Label("index-reloaded-from-files")
		}
		with := db.SearchUniversal(q, opt)
		// the stage leaves nothing behind: asking again gives the same answer, and without the index the old one
		for rep := rapid.IntRange(0, 2).Draw(t, "asked-again"); rep > 0; rep-- {
			if again := db.SearchUniversal(q, opt); !rankEq(rank(db, with), rank(db, again)) {
				t.Fatalf("the same search with the same embedding index attached (database %s) answers differently the next time:\n first %s\n again %s\n query %q options %v", made, rankStr(rank(db, with)), rankStr(rank(db, again)), q, optBrief(opt))
			}
		}
		database.VerifSetEmbeddingIndex(db, nil)
		if after := rank(db, db.SearchUniversal(q, opt)); !rankEq(base, after) {
			t.Fatalf("after the embedding index was detached (database %s) the search no longer answers as before it was attached:\n before %s\n after  %s\n query %q options %v", made, rankStr(base), rankStr(after), q, optBrief(opt))
		}
		wr := rank(db, with)
		b0, b1 := map[int]float64{}, map[int]float64{}
		for _, x := range base {
			b0[x.Idx] = math.Float64frombits(x.Bits)
		}
		for _, x := range wr {
			b1[x.Idx] = math.Float64frombits(x.Bits)
		}
		if len(b0) != len(b1) {
			t.Fatalf("attaching an embedding index changed the result set: %s vs %s (query %q)", rankStr(base), rankStr(wr), q)
		}
		raised := false
		alpha := constants.SemanticAlpha
		for i, s0 := range b0 {
			s1, ok := b1[i]
			if !ok {
				t.Fatalf("entry #%d disappeared when an embedding index was attached (query %q)", i, q)
			}
			if math.IsNaN(s1) || s1 < s0 || s1 > s0*(1+alpha)*(1+1e-12) {
				t.Fatalf("semantic stage moved the score of entry #%d from %v to %v, outside [score, score*(1+%v)] (query %q hostile=%v)", i, s0, s1, alpha, q, hostile)
			}
			if s1 > s0 {
				raised = true
			}
		}
		for i := 1; i < len(with); i++ {
			if with[i-1].Score < with[i].Score {
				t.Fatalf("result list not ordered after the semantic stage: %s", rankStr(wr))
			}
		}
		labels := []string{"search", "db:" + string(cls), "database:" + made}
		if hostile {
			labels = append(labels, "hostile-vectors")
		}
		if raised {
			labels = append(labels, "score-raised")
		}
		rec.Case(raised, map[string]any{"db": gen.BriefDB(cmds, 4), "query": q, "dim": dim, "embeddings": nEmb, "without": rankStr(base), "with": rankStr(wr)}, labels...)
	})
}

// TestC19_LoadHistory: what Database.LoadEmbeddings attaches depends on the asset files that
// exist NOW, not on what an earlier load in the same process found.
func TestC19_LoadHistory(t *testing.T) {
	rec := stat.For("C19")
	rec.Rule("(D) histories in a scratch working directory: write / overwrite / remove glove.bin and cmd_embeddings.bin (valid, truncated, wrong dimension, missing rows, raw bytes, empty) in ./ or ./assets/, interleaved with LoadEmbeddings on freshly loaded databases. Oracle: no error ever; embeddings are attached iff the glove file found now (./ before ./assets/) loads with the file loader; the number of command embeddings is what loading the present files directly gives; without an attached index the search answers exactly as before any load. Non-trivial = a load that finds no usable files after an earlier load that did.")
	log.SetOutput(io.Discard)
	home, _ := os.Getwd()
	defer os.Chdir(home)
	rapid.Check(t, func(t *rapid.T) {
		dir := mkdirWork("c19h-")
		defer os.RemoveAll(dir)
		os.Mkdir(filepath.Join(dir, "assets"), 0o755)
		if err := os.Chdir(dir); err != nil {
			t.Fatalf("harness: %v", err)
		}
		defer os.Chdir(home)
		cmds, _ := gen.DB(t, gen.CmdOpts{}, []int{0, 0, 2, 6, 0})
		path := gen.WriteDB(t, cmds)
		defer os.Remove(path)
		q, _ := gen.Query(t, cmds, []gen.QueryClass{"vocab", "vocab", "nlp"})
		opt := database.SearchOptions{Limit: len(cmds) + 1, UseNLP: true, AllPlatforms: true}
		base0, err := database.LoadDatabase(path)
		if err != nil {
			t.Fatalf("harness: %v", err)
		}
		base := rank(base0, base0.SearchUniversal(q, opt))
		everAttached, afterLoss := false, false
		var steps []string
		safe := func(f c19File) bool { return f.Kind != "huge-count" && f.Kind != "long-word" }
		find := func(name string) string {
			for _, p := range []string{name, filepath.Join("assets", name)} {
				if _, err := os.Stat(p); err == nil {
					return p
				}
			}
			return ""
		}
		t.Repeat(map[string]func(*rapid.T){
			"write-glove": func(t *rapid.T) {
				f := c19Glove(t)
				if !safe(f) {
					t.Skip("kind reserved for the child-process check")
				}
				p := rapid.SampledFrom([]string{"glove.bin", "assets/glove.bin"}).Draw(t, "where")
				os.WriteFile(p, f.Bytes, 0o644)
				steps = append(steps, "write "+p+" ("+f.Kind+")")
			},
			"write-cmd": func(t *rapid.T) {
				f := c19Cmd(t)
				if !safe(f) {
					t.Skip("kind reserved for the child-process check")
				}
				p := rapid.SampledFrom([]string{"cmd_embeddings.bin", "assets/cmd_embeddings.bin"}).Draw(t, "where")
				os.WriteFile(p, f.Bytes, 0o644)
				steps = append(steps, "write "+p+" ("+f.Kind+")")
			},
			"remove": func(t *rapid.T) {
				p := rapid.SampledFrom([]string{"glove.bin", "assets/glove.bin", "cmd_embeddings.bin", "assets/cmd_embeddings.bin"}).Draw(t, "which")
				os.Remove(p)
				steps = append(steps, "remove "+p)
			},
			"remove-all": func(t *rapid.T) {
				for _, p := range []string{"glove.bin", "assets/glove.bin", "cmd_embeddings.bin", "assets/cmd_embeddings.bin"} {
					os.Remove(p)
				}
				steps = append(steps, "remove all")
			},
			"load": func(t *rapid.T) {
				db, err := database.LoadDatabase(path)
				if err != nil {
					t.Fatalf("harness: %v", err)
				}
				if err := db.LoadEmbeddings(); err != nil {
					t.Fatalf("LoadEmbeddings returned an error (%v): embeddings are optional; steps=%v", err, steps)
				}
				wantAttached, wantCmds := false, 0
				if gp := find("glove.bin"); gp != "" {
					if idx, err := embedding.LoadWordVectors(gp); err == nil && idx != nil {
						wantAttached = true
						if cp := find("cmd_embeddings.bin"); cp != "" {
							if idx.LoadCommandEmbeddings(cp) == nil {
								wantCmds = idx.NumCommands()
							}
						}
					}
				}
				steps = append(steps, fmt.Sprintf("load -> attached=%v", db.HasEmbeddings()))
				if db.HasEmbeddings() != wantAttached {
					t.Fatalf("LoadEmbeddings attached=%v, but the files present now say %v; steps=%v", db.HasEmbeddings(), wantAttached, steps)
				}
				if wantAttached {
					if got := len(db.SemanticScores(make([]float32, 100))); got != wantCmds {
						t.Fatalf("%d command embeddings attached, the files present now hold %d; steps=%v", got, wantCmds, steps)
					}
					everAttached = true
					// whatever was attached (a table cut off half-way included) is searched with a real query
					for _, r := range db.SearchUniversal(q, opt) {
						if math.IsNaN(r.Score) || math.IsInf(r.Score, 0) || r.Score < 0 || r.Command == nil {
							t.Fatalf("search with the attached embeddings returned score %v (command nil: %v); steps=%v", r.Score, r.Command == nil, steps)
						}
					}
				} else {
					if got := rank(db, db.SearchUniversal(q, opt)); !rankEq(got, base) {
						t.Fatalf("no usable embedding files, yet the search differs from the plain one:\n plain %s\n now   %s\n steps=%v", rankStr(base), rankStr(got), steps)
					}
					if everAttached {
						afterLoss = true
					}
				}
			},
		})
		labels := []string{"load-history"}
		if afterLoss {
			labels = append(labels, "load-after-files-lost")
		}
		if len(steps) > 30 {
			steps = append(steps[:30], "...")
		}
		rec.Case(afterLoss, map[string]any{"load_history": true, "steps": steps}, labels...)
	})
}
