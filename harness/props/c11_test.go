package props

import (
	"fmt"
	"os"
	"runtime"
	"sort"
	"strings"
	"sync"
	"sync/atomic"
	"testing"
	"time"

	"github.com/anishathalye/porcupine"

	"github.com/Vedant9500/WTF/internal/cache"
	"github.com/Vedant9500/WTF/internal/database"
	"github.com/Vedant9500/WTF/internal/embedding"
	"github.com/Vedant9500/WTF/verifharness/gen"
	"github.com/Vedant9500/WTF/verifharness/stat"
	"pgregory.net/rapid"
)

// C11 — concurrent searches on one database are race-free and answer as if alone.
// Run with the -race binary: a race report makes the process exit non-zero with
// "DATA RACE" in its output, which the driver maps to a violation.

type c11Op struct {
	Kind  string // universal | cached | monitored | invalidate | cleanup | stats
	Q     int    // query index
	O     int    // option index
	Yield bool   // runtime.Gosched() before the call
}

func (o c11Op) String() string {
	if o.Kind == "universal" || o.Kind == "cached" || o.Kind == "monitored" {
		return fmt.Sprintf("%s(q%d,o%d)", o.Kind, o.Q, o.O)
	}
	return o.Kind
}

// c11OddEnv puts, for the length of one case, a few odd settings into this process's environment (a
// WSL session's variables, another locale, unknown WTF_* values unique to the case): whatever the
// engine reads from there, it reads it from every searching goroutine at once. Returns the undo.
var c11EnvCase int

func c11OddEnv(t *rapid.T) func() {
	if !rapid.Bool().Draw(t, "odd-environment") {
		return func() {}
	}
	c11EnvCase++
	var undo []func()
	for _, kv := range gen.HostileEnv(t, fmt.Sprint("case", c11EnvCase)) {
		k, v, _ := strings.Cut(kv, "=")
		old, had := os.LookupEnv(k)
		os.Setenv(k, v)
		stat.For("C11").Label("odd-environment:" + k)
		undo = append(undo, func() {
			if had {
				os.Setenv(k, old)
			} else {
				os.Unsetenv(k)
			}
		})
	}
	return func() {
		for i := len(undo) - 1; i >= 0; i-- {
			undo[i]()
		}
	}
}

func TestC11_Programs(t *testing.T) {
	rec := stat.For("C11")
	rec.Rule("generated concurrent programs: G in [2,16] goroutines x K in [5,40] operations over one loaded database, operations drawn from SearchUniversal / cached search / monitored search / InvalidateCache / CleanupExpiredCache / GetCacheStats with random Gosched points and GOMAXPROCS in {2,4,16}; built with -race. Oracle: no race report; every search equals the answer computed sequentially beforehand (bitwise); monitor totals equal the number of monitored searches. Non-trivial = at least two goroutines issued a cached/monitored search for the same (query, options).")
	rapid.Check(t, func(t *rapid.T) {
		defer c11OddEnv(t)()
		cmds, _ := gen.DB(t, gen.CmdOpts{Platforms: true}, []int{1, 1, 3, 8, 1}) // empty and one-entry databases too
		db := gen.Load(t, cmds)
		toks := gen.Tokens(cmds)
		if len(toks) == 0 {
			toks = []string{"find"}
		}
		tok := rapid.SampledFrom(toks)
		queries := []string{
			gen.TextOf(tok, 1, 2).Draw(t, "q0"), gen.TextOf(tok, 2, 4).Draw(t, "q1"),
			gen.Typo(t, tok.Draw(t, "q2")), "find " + tok.Draw(t, "q3") + " files",
		}
		opts := []database.SearchOptions{
			{Limit: 5, UseNLP: true, UseFuzzy: true},
			{Limit: 3, UseNLP: false, UseFuzzy: true, AllPlatforms: true},
			{Limit: 10, UseNLP: true, PipelineOnly: true},
			{Limit: 2, UseNLP: true, UseFuzzy: true, ContextBoosts: map[string]float64{toks[0]: 2}},
		}
		// sequential answers first, computed on a twin so that the database under test is still untouched
		twin := gen.Load(t, cmds)
		withEmb := rapid.Bool().Draw(t, "embeddings")
		if withEmb {
			// an embedding index attached (as after LoadEmbeddings with asset files): the semantic
			// stage then runs inside every search; each database gets its own copy of the index
			dim := rapid.SampledFrom([]int{3, 8, 50}).Draw(t, "dim")
			comp := rapid.Float32Range(-1, 1)
			wv := map[string][]float32{}
			for _, w := range append(append([]string{}, toks...), "find", "files") {
				wv[w] = rapid.SliceOfN(comp, dim, dim).Draw(t, "wv")
			}
			ce := make([][]float32, len(cmds))
			for i := range ce {
				ce[i] = rapid.SliceOfN(comp, dim, dim).Draw(t, "ce")
			}
			mk := func() *embedding.Index {
				x := &embedding.Index{Dimension: dim, WordVectors: map[string][]float32{}}
				for k, v := range wv {
					x.WordVectors[k] = append([]float32(nil), v...)
				}
				for _, v := range ce {
					x.CmdEmbeddings = append(x.CmdEmbeddings, append([]float32(nil), v...))
				}
				return x
			}
			database.VerifSetEmbeddingIndex(db, mk())
			database.VerifSetEmbeddingIndex(twin, mk())
		}
		want := map[[2]int][]rankItem{}
		for qi, q := range queries {
			for oi, o := range opts {
				want[[2]int{qi, oi}] = rank(twin, twin.SearchUniversal(q, o))
			}
		}
		g := rapid.IntRange(2, 16).Draw(t, "goroutines")
		k := rapid.IntRange(5, 40).Draw(t, "ops")
		procs := rapid.SampledFrom([]int{2, 4, 16}).Draw(t, "gomaxprocs")
		kinds := []string{"universal", "cached", "cached", "cached", "monitored", "monitored", "invalidate", "cleanup", "stats"}
		prog := make([][]c11Op, g)
		for i := range prog {
			prog[i] = make([]c11Op, k)
			for j := range prog[i] {
				prog[i][j] = c11Op{rapid.SampledFrom(kinds).Draw(t, "kind"), rapid.IntRange(0, len(queries)-1).Draw(t, "q"), rapid.IntRange(0, len(opts)-1).Draw(t, "o"), rapid.IntRange(0, 3).Draw(t, "yield") == 0}
			}
		}
		mdb := database.NewMonitoredDatabase(db)
		prev := runtime.GOMAXPROCS(procs)
		defer runtime.GOMAXPROCS(prev)
		var wg sync.WaitGroup
		var mu sync.Mutex
		var failures []string
		start := make(chan struct{})
		for i := range prog {
			wg.Add(1)
			go func(i int) {
				defer wg.Done()
				defer func() {
					if r := recover(); r != nil {
						mu.Lock()
						failures = append(failures, fmt.Sprintf("goroutine %d panicked: %v", i, r))
						mu.Unlock()
					}
				}()
				<-start
				for j, op := range prog[i] {
					if op.Yield {
						runtime.Gosched()
					}
					var got []database.SearchResult
					search := true
					switch op.Kind {
					case "universal":
						got = db.SearchUniversal(queries[op.Q], opts[op.O])
					case "cached":
						got = mdb.SearchWithOptionsAndCache(queries[op.Q], opts[op.O])
					case "monitored":
						got = mdb.SearchWithOptionsAndMonitoring(queries[op.Q], opts[op.O])
					case "invalidate":
						mdb.InvalidateCache()
						search = false
					case "cleanup":
						mdb.CleanupExpiredCache()
						search = false
					default:
						s := mdb.GetCacheStats()["search"]
						if s.Size < 0 || s.Size > s.Capacity || s.Hits < 0 || s.Misses < 0 {
							mu.Lock()
							failures = append(failures, fmt.Sprintf("goroutine %d op %d: impossible cache statistics %+v", i, j, s))
							mu.Unlock()
						}
						search = false
					}
					if search {
						if a := rank(db, got); !rankEq(a, want[[2]int{op.Q, op.O}]) {
							mu.Lock()
							failures = append(failures, fmt.Sprintf("goroutine %d op %d %s: got %s, alone it answers %s", i, j, op, rankStr(a), rankStr(want[[2]int{op.Q, op.O}])))
							mu.Unlock()
						}
						// the list belongs to this goroutine now: it re-scores and reverses it, which no other
						// goroutine's answer (and no race report) may reflect
						if (i+j)%2 == 0 {
							for x, y := 0, len(got)-1; x < y; x, y = x+1, y-1 {
								got[x], got[y] = got[y], got[x]
							}
							for x := range got {
								got[x].Score = -1 - float64(x)
							}
						}
					}
				}
			}(i)
		}
		close(start)
		if !waitOrHang(&wg, 90*time.Second) {
			lines := make([]string, len(prog))
			for i := range prog {
				lines[i] = fmt.Sprintf("g%d: %v", i, prog[i])
			}
			saveCase("C11", "program", map[string]any{"test": "TestC11_Programs", "note": "hang", "program": lines})
			t.Fatalf("concurrent program did not finish within 90 s: operations are stuck (deadlock)\n program:\n%s\n goroutines:\n%s", strings.Join(lines, "\n"), dumpStacks())
		}
		monitored, shared := 0, false
		seenBy := map[[2]int]int{}
		for i := range prog {
			mine := map[[2]int]bool{}
			for _, op := range prog[i] {
				if op.Kind == "monitored" {
					monitored++
				}
				if op.Kind == "cached" || op.Kind == "monitored" {
					mine[[2]int{op.Q, op.O}] = true
				}
			}
			for key := range mine {
				seenBy[key]++
				if seenBy[key] >= 2 {
					shared = true
				}
			}
		}
		sum, _ := monitorTotals2(mdb)
		if int(sum["searches_total"]) != monitored || int(sum["cache_hits_total"]+sum["cache_misses_total"]) != monitored || int(sum["query_length_count"]) != monitored {
			failures = append(failures, fmt.Sprintf("monitor totals after %d monitored searches: searches_total=%v hits+misses=%v query_length_count=%v", monitored, sum["searches_total"], sum["cache_hits_total"]+sum["cache_misses_total"], sum["query_length_count"]))
		}
		if len(failures) > 0 {
			lines := make([]string, len(prog))
			for i := range prog {
				lines[i] = fmt.Sprintf("g%d: %v", i, prog[i])
			}
			saveCase("C11", "program", map[string]any{"test": "TestC11_Programs", "note": "schedule-dependent: re-run the check; the program is recorded for inspection", "queries": queries, "program": lines, "failures": failures, "db": gen.BriefDB(cmds, 20)})
			t.Fatalf("%s\n GOMAXPROCS=%d queries=%q\n program:\n%s", strings.Join(failures, "\n"), procs, queries, strings.Join(lines, "\n"))
		}
		rec.Case(shared, map[string]any{"goroutines": g, "ops_each": k, "gomaxprocs": procs, "queries": queries, "g0": fmt.Sprint(prog[0]), "embeddings": withEmb}, "programs", fmt.Sprintf("gomaxprocs:%d", procs), fmt.Sprintf("embeddings:%v", withEmb))
	})
}

// waitOrHang waits for wg; if the goroutines do not finish in time the cache (or the
// search path) is stuck: a deadlock is a violation of "behaves as if one at a time".
func waitOrHang(wg *sync.WaitGroup, d time.Duration) bool {
	done := make(chan struct{})
	go func() { wg.Wait(); close(done) }()
	select {
	case <-done:
		return true
	case <-time.After(d):
		return false
	}
}

func dumpStacks() string {
	buf := make([]byte, 1<<16)
	n := runtime.Stack(buf, true)
	out := string(buf[:n])
	if len(out) > 6000 {
		out = out[:6000] + "\n..."
	}
	return out
}

func monitorTotals2(mdb *database.MonitoredDatabase) (map[string]float64, int) {
	sum := map[string]float64{}
	ms := mdb.GetPerformanceReport().ApplicationMetrics
	for _, m := range ms {
		sum[m.Name] += m.Value
	}
	return sum, len(ms)
}

// ---- LRU linearizability ------------------------------------------------------------

type lruIn struct {
	Op  string // get put delete size stats keys clear
	Key string
	Val int
}

type lruOut struct {
	OK   bool
	Val  int
	N    int
	St   [4]int64 // hits, misses, evictions, size
	Keys string
}

type lruSt struct {
	Cap     int
	Keys    []string // front = most recently used
	Vals    map[string]int
	H, M, E int64
}

func (s lruSt) clone() lruSt {
	n := lruSt{Cap: s.Cap, Keys: append([]string(nil), s.Keys...), Vals: make(map[string]int, len(s.Vals)), H: s.H, M: s.M, E: s.E}
	for k, v := range s.Vals {
		n.Vals[k] = v
	}
	return n
}

func (s *lruSt) touch(k string) {
	for i, x := range s.Keys {
		if x == k {
			s.Keys = append(s.Keys[:i], s.Keys[i+1:]...)
			break
		}
	}
	s.Keys = append([]string{k}, s.Keys...)
}

func (s lruSt) String() string {
	return fmt.Sprintf("%v %v h%d m%d e%d", s.Keys, s.Vals, s.H, s.M, s.E)
}

func lruPorcModel(capacity int) porcupine.Model {
	return porcupine.Model{
		Init: func() interface{} { return lruSt{Cap: capacity, Vals: map[string]int{}} },
		Step: func(st, in, out interface{}) (bool, interface{}) {
			s := st.(lruSt).clone()
			i, o := in.(lruIn), out.(lruOut)
			switch i.Op {
			case "get":
				v, ok := s.Vals[i.Key]
				if ok != o.OK || (ok && v != o.Val) {
					return false, s
				}
				if ok {
					s.touch(i.Key)
					s.H++
				} else {
					s.M++
				}
				return true, s
			case "put":
				if _, ok := s.Vals[i.Key]; !ok && len(s.Keys) == s.Cap {
					victim := s.Keys[len(s.Keys)-1]
					s.Keys = s.Keys[:len(s.Keys)-1]
					delete(s.Vals, victim)
					s.E++
				}
				s.Vals[i.Key] = i.Val
				s.touch(i.Key)
				return true, s
			case "delete":
				_, ok := s.Vals[i.Key]
				if ok != o.OK {
					return false, s
				}
				if ok {
					delete(s.Vals, i.Key)
					for j, x := range s.Keys {
						if x == i.Key {
							s.Keys = append(s.Keys[:j], s.Keys[j+1:]...)
							break
						}
					}
				}
				return true, s
			case "size":
				return len(s.Keys) == o.N, s
			case "stats":
				return o.St == [4]int64{s.H, s.M, s.E, int64(len(s.Keys))}, s
			case "keys":
				ks := append([]string(nil), s.Keys...)
				sort.Strings(ks)
				return strings.Join(ks, ",") == o.Keys, s
			case "clear":
				return true, lruSt{Cap: s.Cap, Vals: map[string]int{}}
			}
			return false, s
		},
		Equal:             func(a, b interface{}) bool { return a.(lruSt).String() == b.(lruSt).String() },
		DescribeOperation: func(in, out interface{}) string { return fmt.Sprintf("%+v -> %+v", in, out) },
	}
}

func TestC11_LRULinearizable(t *testing.T) {
	rec := stat.For("C11")
	rec.Rule("LRU histories: G in [2,5] goroutines x K in [3,10] operations (get/put/delete/size/stats/keys/clear) on one LRUCache of capacity 1-3 over <=4 keys, no lifetime, wall-clock call/return stamps recorded. Oracle: porcupine finds a linearization against the sequential reference LRU (values, victims, hit/miss/eviction/size statistics). Non-trivial = two goroutines touched the same key.")
	rapid.Check(t, func(t *rapid.T) {
		capacity := rapid.IntRange(1, 3).Draw(t, "cap")
		g := rapid.IntRange(2, 5).Draw(t, "goroutines")
		k := rapid.IntRange(3, 10).Draw(t, "ops")
		keys := []string{"a", "b", "c", "d"}[:rapid.IntRange(1, 4).Draw(t, "nkeys")]
		opKinds := []string{"get", "get", "put", "put", "put", "delete", "size", "stats", "keys", "clear"}
		prog := make([][]lruIn, g)
		val := 0
		for i := range prog {
			for j := 0; j < k; j++ {
				val++
				prog[i] = append(prog[i], lruIn{rapid.SampledFrom(opKinds).Draw(t, "op"), rapid.SampledFrom(keys).Draw(t, "key"), val})
			}
		}
		c := cache.NewLRUCache(capacity, 0)
		var mu sync.Mutex
		var ops []porcupine.Operation
		var wg sync.WaitGroup
		t0 := time.Now()
		start := make(chan struct{})
		for i := range prog {
			wg.Add(1)
			go func(i int) {
				defer wg.Done()
				<-start
				for _, in := range prog[i] {
					var out lruOut
					call := time.Since(t0).Nanoseconds()
					switch in.Op {
					case "get":
						v, ok := c.Get(in.Key)
						out.OK = ok
						if ok {
							out.Val, _ = v.(int)
						}
					case "put":
						c.Put(in.Key, in.Val)
					case "delete":
						out.OK = c.Delete(in.Key)
					case "size":
						out.N = c.Size()
					case "stats":
						s := c.Stats()
						out.St = [4]int64{s.Hits, s.Misses, s.Evictions, int64(s.Size)}
					case "keys":
						ks := c.Keys()
						sort.Strings(ks)
						out.Keys = strings.Join(ks, ",")
					case "clear":
						c.Clear()
					}
					ret := time.Since(t0).Nanoseconds()
					mu.Lock()
					ops = append(ops, porcupine.Operation{ClientId: i, Input: in, Call: call, Output: out, Return: ret})
					mu.Unlock()
				}
			}(i)
		}
		close(start)
		if !waitOrHang(&wg, 60*time.Second) {
			t.Fatalf("LRU operations did not finish within 60 s (capacity %d, %d goroutines): the cache is stuck (deadlock)\n programs: %+v\n goroutines:\n%s", capacity, g, prog, dumpStacks())
		}
		res := porcupine.CheckOperationsTimeout(lruPorcModel(capacity), ops, 20*time.Second)
		if res == porcupine.Illegal {
			sort.Slice(ops, func(a, b int) bool { return ops[a].Call < ops[b].Call })
			var lines []string
			for _, o := range ops {
				lines = append(lines, fmt.Sprintf("g%d [%d,%d] %+v -> %+v", o.ClientId, o.Call, o.Return, o.Input, o.Output))
			}
			saveCase("C11", "lru", map[string]any{"test": "TestC11_LRULinearizable", "capacity": capacity, "history": lines})
			t.Fatalf("LRU history (capacity %d) is not linearizable:\n%s", capacity, strings.Join(lines, "\n"))
		}
		touched := map[string]int{}
		shared := false
		for i := range prog {
			mine := map[string]bool{}
			for _, in := range prog[i] {
				if in.Op == "get" || in.Op == "put" || in.Op == "delete" {
					mine[in.Key] = true
				}
			}
			for key := range mine {
				touched[key]++
				if touched[key] >= 2 {
					shared = true
				}
			}
		}
		label := "lru-history"
		if res == porcupine.Unknown {
			label = "lru-history-timeout"
		}
		rec.Case(shared, map[string]any{"capacity": capacity, "goroutines": g, "ops_each": k, "g0": fmt.Sprintf("%+v", prog[0])}, label)
	})
}

// TestC11_FirstUse releases G goroutines at once onto a FRESH monitored database, each
// issuing one monitored search first: lazily created shared state (metric series, cache
// entries) is created under contention, which is where an unsynchronised get-or-create
// loses events without any data race.
func TestC11_FirstUse(t *testing.T) {
	rec := stat.For("C11")
	rec.Rule("first-use contention: G in [2,16] goroutines released together by a barrier onto a fresh MonitoredDatabase, each doing 1-3 monitored / cached searches, repeated for many fresh instances per case. Oracle: answers equal the sequential ones and the monitor totals equal the number of monitored searches (no increment lost while the series are being created).")
	rapid.Check(t, func(t *rapid.T) {
		defer c11OddEnv(t)()
		cmds, _ := gen.DB(t, gen.CmdOpts{}, []int{0, 0, 2, 6, 0})
		twin := gen.Load(t, cmds) // sequential answers come from a twin, so the databases under test stay untouched
		toks := gen.Tokens(cmds)
		if len(toks) == 0 {
			toks = []string{"find"}
		}
		q := gen.TextOf(rapid.SampledFrom(toks), 1, 2).Draw(t, "q")
		if rapid.Bool().Draw(t, "typo-query") {
			q = gen.Typo(t, rapid.SampledFrom(toks).Draw(t, "typo-word")) // answered by the typo fallback
		}
		opt := database.SearchOptions{Limit: 5, UseNLP: rapid.Bool().Draw(t, "nlp"), UseFuzzy: true}
		// the answer of a search run alone: taken before the goroutines start or, in half the cases, only after
		// the first concurrent round - then the goroutines are the very first users of whatever the process
		// keeps across databases (package-level memos, once-guards, scratch tables)
		lateRef := rapid.Bool().Draw(t, "reference-after-first-round")
		var want []rankItem
		if !lateRef {
			want = rank(twin, twin.SearchUniversal(q, opt))
		}
		path := gen.WriteDB(t, cmds)
		defer os.Remove(path)
		// some fresh instances come from main + notebook files (the way the CLI loads), not from one file
		split := -1
		mainPath, notebookPath := "", ""
		if len(cmds) >= 2 && rapid.Bool().Draw(t, "with-notebook") {
			split = rapid.IntRange(1, len(cmds)-1).Draw(t, "split")
			mainPath, notebookPath = gen.WriteDB(t, cmds[:split]), gen.WriteDB(t, cmds[split:])
			defer os.Remove(mainPath)
			defer os.Remove(notebookPath)
		}
		g := rapid.IntRange(2, 16).Draw(t, "goroutines")
		each := rapid.IntRange(1, 3).Draw(t, "each")
		procs := rapid.SampledFrom([]int{2, 4, 16}).Draw(t, "gomaxprocs")
		prev := runtime.GOMAXPROCS(procs)
		defer runtime.GOMAXPROCS(prev)
		rounds := 25
		for round := 0; round < rounds; round++ {
			db, err := database.LoadDatabase(path) // freshly loaded: nothing has been searched on it yet
			if split >= 0 {
				db, err = database.LoadDatabaseWithPersonal(mainPath, notebookPath)
			}
			if err != nil {
				t.Fatalf("harness: %v", err)
			}
			mdb := database.NewMonitoredDatabase(db)
			var wg sync.WaitGroup
			var mu sync.Mutex
			var bad []string
			type answer struct {
				i, j int
				got  []rankItem
			}
			var answers []answer
			start := make(chan struct{})
			for i := 0; i < g; i++ {
				wg.Add(1)
				go func(i int) {
					defer wg.Done()
					<-start
					for j := 0; j < each; j++ {
						var res []database.SearchResult
						if (i+j)%3 == 0 {
							res = db.SearchUniversal(q, opt) // some go straight to the engine
						} else {
							res = mdb.SearchWithOptionsAndMonitoring(q, opt)
						}
						got := rank(db, res)
						mu.Lock()
						answers = append(answers, answer{i, j, got})
						mu.Unlock()
					}
				}(i)
			}
			close(start)
			if !waitOrHang(&wg, 60*time.Second) {
				t.Fatalf("monitored searches on a fresh database did not finish within 60 s (deadlock)\n goroutines:\n%s", dumpStacks())
			}
			if want == nil {
				want = rank(twin, twin.SearchUniversal(q, opt))
				if want == nil {
					want = []rankItem{}
				}
			}
			for _, a := range answers {
				if !rankEq(a.got, want) {
					bad = append(bad, fmt.Sprintf("goroutine %d search %d: got %s, alone it answers %s", a.i, a.j, rankStr(a.got), rankStr(want)))
				}
			}
			n := 0
			for i := 0; i < g; i++ {
				for j := 0; j < each; j++ {
					if (i+j)%3 != 0 {
						n++
					}
				}
			}
			sum, _ := monitorTotals2(mdb)
			if int(sum["searches_total"]) != n || int(sum["cache_hits_total"]+sum["cache_misses_total"]) != n || int(sum["query_length_count"]) != n {
				bad = append(bad, fmt.Sprintf("after %d concurrent first monitored searches: searches_total=%v hits+misses=%v query_length_count=%v", n, sum["searches_total"], sum["cache_hits_total"]+sum["cache_misses_total"], sum["query_length_count"]))
			}
			if len(bad) > 0 {
				saveCase("C11", "firstuse", map[string]any{"test": "TestC11_FirstUse", "note": "schedule-dependent; re-run the check", "goroutines": g, "each": each, "query": q, "failures": bad})
				t.Fatalf("round %d, %d goroutines x %d searches on a fresh monitored database (GOMAXPROCS=%d, query %q):\n%s", round, g, each, procs, q, strings.Join(bad, "\n"))
			}
		}
		rec.Case(true, map[string]any{"first_use": true, "goroutines": g, "each": each, "rounds": rounds, "gomaxprocs": procs, "query": q}, "first-use")
	})
}

// TestC11_OptionTwins releases goroutines together onto a fresh cached database, all asking
// the SAME query (in varying letter case) but under two option sets that differ in one field:
// whatever is shared between concurrent requests for one query (cache entries, in-flight
// work, scratch state) must be keyed by everything that can change the answer.
func TestC11_OptionTwins(t *testing.T) {
	rec := stat.For("C11")
	rec.Rule("option twins: G in [2,12] goroutines released by a barrier onto a fresh Cached/MonitoredDatabase (cold cache), all searching one query (ASCII re-spellings) under two option sets taken from a pool of one-field deltas (limit, boosts, pipeline, fuzzy, threshold, NLP, term cap, all-platforms, platforms, no-cross); pairs whose sequential answers differ are preferred; 10 fresh instances per case; built with -race. Oracle: every answer equals the sequential answer for its own option set. Non-trivial = the two option sets have different sequential answers.")
	rapid.Check(t, func(t *rapid.T) {
		defer c11OddEnv(t)()
		cmds := rapid.SliceOfN(c04Cmd(), 4, 14).Draw(t, "cmds")
		twin := gen.Load(t, cmds)
		toks := gen.Tokens(cmds)
		if len(toks) < 2 {
			toks = append(toks, "find", "files")
		}
		tok := rapid.SampledFrom(toks)
		q := asciiOnly(gen.TextOf(tok, 1, 2).Draw(t, "q"))
		if rapid.IntRange(0, 3).Draw(t, "typo-query") == 0 {
			q = asciiOnly(gen.Typo(t, tok.Draw(t, "typo-word")))
		}
		pool := c11TwinOptions(toks)
		spell := []string{q, strings.ToUpper(q), strings.ToLower(q)}
		want := make([][3][]rankItem, len(pool))
		for i, o := range pool {
			for s, sq := range spell {
				want[i][s] = rank(twin, twin.SearchUniversal(sq, o))
			}
		}
		// candidate pairs are exactly one field apart (every pool entry is a one-field delta of
		// pool[0]; two more pairs inside the pool are one field apart as well)
		var oneApart, differing [][2]int
		for b := 1; b < len(pool); b++ {
			oneApart = append(oneApart, [2]int{0, b})
		}
		for a := 1; a < len(pool); a++ {
			for b := a + 1; b < len(pool); b++ {
				if optFieldDistance(pool[a], pool[b]) == 1 {
					oneApart = append(oneApart, [2]int{a, b})
				}
			}
		}
		for _, p := range oneApart {
			if !rankEq(want[p[0]][0], want[p[1]][0]) {
				differing = append(differing, p)
			}
		}
		pair := oneApart[rapid.IntRange(0, len(oneApart)-1).Draw(t, "pair")]
		if len(differing) > 0 && rapid.IntRange(0, 5).Draw(t, "prefer-differing") > 0 {
			pair = differing[rapid.IntRange(0, len(differing)-1).Draw(t, "differing-pair")]
		}
		nontrivial := !rankEq(want[pair[0]][0], want[pair[1]][0])
		path := gen.WriteDB(t, cmds)
		defer os.Remove(path)
		g := rapid.IntRange(2, 12).Draw(t, "goroutines")
		procs := rapid.SampledFrom([]int{2, 4, 16}).Draw(t, "gomaxprocs")
		monitoredPath := rapid.Bool().Draw(t, "monitored")
		prev := runtime.GOMAXPROCS(procs)
		defer runtime.GOMAXPROCS(prev)
		for round := 0; round < 10; round++ {
			db, err := database.LoadDatabase(path)
			if err != nil {
				t.Fatalf("harness: %v", err)
			}
			mdb := database.NewMonitoredDatabase(db)
			var wg sync.WaitGroup
			var mu sync.Mutex
			var bad []string
			start := make(chan struct{})
			for i := 0; i < g; i++ {
				wg.Add(1)
				go func(i int) {
					defer wg.Done()
					oi, si := pair[(i+round)%2], (i/2)%3
					<-start
					for rep := 0; rep < 2; rep++ {
						var res []database.SearchResult
						if monitoredPath && i%3 == 0 {
							res = mdb.SearchWithOptionsAndMonitoring(spell[si], pool[oi])
						} else {
							res = mdb.SearchWithOptionsAndCache(spell[si], pool[oi])
						}
						if got := rank(db, res); !rankEq(got, want[oi][si]) {
							mu.Lock()
							bad = append(bad, fmt.Sprintf("goroutine %d (%q, options %v): got %s, alone it answers %s", i, spell[si], optBrief(pool[oi]), rankStr(got), rankStr(want[oi][si])))
							mu.Unlock()
						}
					}
				}(i)
			}
			close(start)
			if !waitOrHang(&wg, 60*time.Second) {
				t.Fatalf("concurrent cached searches did not finish within 60 s (deadlock)\n goroutines:\n%s", dumpStacks())
			}
			if len(bad) > 0 {
				saveCase("C11", "twins", map[string]any{"test": "TestC11_OptionTwins", "note": "schedule-dependent; re-run the check", "query": q, "options": []string{fmt.Sprint(optBrief(pool[pair[0]])), fmt.Sprint(optBrief(pool[pair[1]]))}, "failures": bad, "db": gen.BriefDB(cmds, 14)})
				t.Fatalf("round %d: %d goroutines searching %q under two option sets at once (GOMAXPROCS=%d):\n%s\n db=%v", round, g, q, procs, strings.Join(bad, "\n"), gen.BriefDB(cmds, 14))
			}
		}
		labels := []string{"option-twins"}
		if nontrivial {
			labels = append(labels, "twins-differ")
		}
		rec.Case(nontrivial, map[string]any{"option_twins": true, "goroutines": g, "gomaxprocs": procs, "query": q, "a": fmt.Sprint(optBrief(pool[pair[0]])), "b": fmt.Sprint(optBrief(pool[pair[1]]))}, append(labels, "twin-field:"+optDeltaName(pool[pair[0]], pool[pair[1]]))...)
	})
}

// optFieldDistance counts the option fields in which a and b differ.
func optFieldDistance(a, b database.SearchOptions) int {
	n := 0
	for _, d := range []bool{a.Limit != b.Limit, fmt.Sprint(a.ContextBoosts) != fmt.Sprint(b.ContextBoosts), a.PipelineOnly != b.PipelineOnly, a.PipelineBoost != b.PipelineBoost,
		a.UseFuzzy != b.UseFuzzy, a.FuzzyThreshold != b.FuzzyThreshold, a.UseNLP != b.UseNLP, a.TopTermsCap != b.TopTermsCap, a.AllPlatforms != b.AllPlatforms,
		fmt.Sprint(a.Platforms) != fmt.Sprint(b.Platforms), a.NoCrossPlatform != b.NoCrossPlatform} {
		if d {
			n++
		}
	}
	return n
}

func optDeltaName(a, b database.SearchOptions) string {
	switch {
	case a.NoCrossPlatform != b.NoCrossPlatform:
		return "no-cross"
	case fmt.Sprint(a.Platforms) != fmt.Sprint(b.Platforms):
		return "platforms"
	case a.AllPlatforms != b.AllPlatforms:
		return "all-platforms"
	case a.Limit != b.Limit:
		return "limit"
	case fmt.Sprint(a.ContextBoosts) != fmt.Sprint(b.ContextBoosts):
		return "boosts"
	case a.PipelineOnly != b.PipelineOnly || a.PipelineBoost != b.PipelineBoost:
		return "pipeline"
	case a.UseFuzzy != b.UseFuzzy || a.FuzzyThreshold != b.FuzzyThreshold:
		return "fuzzy"
	case a.UseNLP != b.UseNLP:
		return "nlp"
	case a.TopTermsCap != b.TopTermsCap:
		return "term-cap"
	}
	return "same"
}

// TestC11_LRUBound hammers one full cache with inserts of new keys while other goroutines
// read its size in every way there is: whatever order the operations are taken to happen
// in, no reader may ever see more entries than the capacity (or a negative count).
func TestC11_LRUBound(t *testing.T) {
	rec := stat.For("C11")
	rec.Rule("LRU bound under contention: W in [1,4] writers put fresh keys into a full cache of capacity 1-8 (some deleting / clearing as well) while R in [1,4] readers loop over Size / Stats / Keys, 3000-20000 operations each; built with -race. Oracle: every observed Size(), Stats().Size and len(Keys()) lies in [0, capacity] (true at every point of any one-at-a-time order).")
	rapid.Check(t, func(t *rapid.T) {
		capacity := rapid.IntRange(1, 8).Draw(t, "cap")
		writers := rapid.IntRange(1, 4).Draw(t, "writers")
		readers := rapid.IntRange(1, 4).Draw(t, "readers")
		n := rapid.SampledFrom([]int{3000, 8000, 20000}).Draw(t, "ops")
		withDeletes := rapid.Bool().Draw(t, "deletes")
		ttl := time.Duration(0)
		if rapid.IntRange(0, 3).Draw(t, "ttl") == 0 {
			ttl = time.Microsecond * 50 // expiring entries and sweeps shrink the cache concurrently
		}
		c := cache.NewLRUCache(capacity, ttl)
		for i := 0; i < capacity; i++ {
			c.Put(fmt.Sprintf("seed%d", i), i)
		}
		var wg sync.WaitGroup
		var stop int32
		var mu sync.Mutex
		bad := ""
		report := func(s string) {
			mu.Lock()
			if bad == "" {
				bad = s
			}
			mu.Unlock()
			atomic.StoreInt32(&stop, 1)
		}
		for w := 0; w < writers; w++ {
			wg.Add(1)
			go func(w int) {
				defer wg.Done()
				for i := 0; i < n && atomic.LoadInt32(&stop) == 0; i++ {
					c.Put(fmt.Sprintf("w%d-%d", w, i), i)
					if withDeletes && i%7 == 0 {
						c.Delete(fmt.Sprintf("w%d-%d", w, i-1))
					}
					if withDeletes && i%1999 == 0 {
						c.Clear()
					}
					if ttl > 0 && i%257 == 0 {
						c.CleanupExpired()
					}
				}
			}(w)
		}
		for r := 0; r < readers; r++ {
			wg.Add(1)
			go func(r int) {
				defer wg.Done()
				for i := 0; i < n && atomic.LoadInt32(&stop) == 0; i++ {
					switch (i + r) % 3 {
					case 0:
						if s := c.Size(); s < 0 || s > capacity {
							report(fmt.Sprintf("Size() = %d on a cache of capacity %d", s, capacity))
						}
					case 1:
						if s := c.Stats(); s.Size < 0 || s.Size > capacity || s.Capacity != capacity {
							report(fmt.Sprintf("Stats() = %+v on a cache of capacity %d", s, capacity))
						}
					default:
						if k := c.Keys(); len(k) > capacity {
							report(fmt.Sprintf("Keys() lists %d keys on a cache of capacity %d", len(k), capacity))
						}
					}
				}
			}(r)
		}
		if !waitOrHang(&wg, 120*time.Second) {
			t.Fatalf("LRU operations did not finish within 120 s (deadlock)\n%s", dumpStacks())
		}
		if bad != "" {
			saveCase("C11", "lrubound", map[string]any{"test": "TestC11_LRUBound", "note": "schedule-dependent; re-run the check", "capacity": capacity, "writers": writers, "readers": readers, "failure": bad})
			t.Fatalf("%s (%d writers inserting fresh keys, %d readers)", bad, writers, readers)
		}
		rec.Case(true, map[string]any{"lru_bound": true, "capacity": capacity, "writers": writers, "readers": readers, "ops_each": n, "ttl": ttl.String()}, "lru-bound")
	})
}

// TestC11_SweepContention: a sweep over hundreds of expired entries overlaps with clears,
// deletes, re-insertions and readers; afterwards the cache must still be one coherent
// bounded LRU (whatever the sweep does internally, it behaves as if it ran at one instant).
func TestC11_SweepContention(t *testing.T) {
	rec := stat.For("C11")
	rec.Rule("sweep contention: a cache of capacity 300-1200 holding 257..capacity entries that have all outlived a 0.3-1 ms lifetime is swept (CleanupExpired) while other goroutines clear it, delete and re-insert its oldest keys, look expired keys up and read Size / Stats / Keys; 6 rounds per case; built with -race. Oracle: readers never see a size outside [0, capacity]; once quiet, Size == len(Keys) == Stats.Size; inserting `capacity` fresh keys then leaves exactly those keys, each retrievable.")
	rapid.Check(t, func(t *rapid.T) {
		capacity := rapid.SampledFrom([]int{300, 600, 1200}).Draw(t, "cap")
		ttl := time.Duration(rapid.IntRange(300, 1000).Draw(t, "ttl-us")) * time.Microsecond
		mode := rapid.SampledFrom([]string{"clear", "delete-reput", "get-reput", "mixed"}).Draw(t, "mode")
		rounds, longLife := 6, false
		if rapid.IntRange(0, 2).Draw(t, "long-lifetime") == 0 {
			// entries live 80 ms: whatever is stored again while the sweep runs is far from expiring when
			// the round ends, so it must still be there - a sweep removes only what has expired
			ttl, rounds, longLife = 80*time.Millisecond, 2, true
			mode = rapid.SampledFrom([]string{"delete-reput", "get-reput"}).Draw(t, "long-mode")
		}
		c := cache.NewLRUCache(capacity, ttl)
		for round := 0; round < rounds; round++ {
			n := rapid.IntRange(257, capacity).Draw(t, "fill")
			for i := 0; i < n; i++ {
				c.Put(fmt.Sprintf("r%d-k%d", round, i), i)
			}
			if longLife {
				time.Sleep(ttl + 8*time.Millisecond)
			} else {
				time.Sleep(2 * ttl)
			}
			var wg sync.WaitGroup
			var mu sync.Mutex
			bad := ""
			report := func(s string) {
				mu.Lock()
				if bad == "" {
					bad = s
				}
				mu.Unlock()
			}
			start := make(chan struct{})
			wg.Add(1)
			go func() { defer wg.Done(); <-start; c.CleanupExpired() }()
			if longLife {
				for sw := 0; sw < 2; sw++ { // more sweeps while entries are being stored again
					wg.Add(1)
					go func() {
						defer wg.Done()
						<-start
						for i := 0; i < 25; i++ {
							c.CleanupExpired()
							runtime.Gosched()
						}
					}()
				}
			}
			for w := 0; w < 3; w++ {
				wg.Add(1)
				go func(w int) {
					defer wg.Done()
					<-start
					// act while the sweep is under way: wait until it has removed a first stretch of entries
					from := 0
					if w != 2 {
						for spin := 0; spin < 200000 && c.Size() > n-200; spin++ {
							runtime.Gosched()
						}
						from = 200
					}
					for i := from; i < n; i++ {
						k := fmt.Sprintf("r%d-k%d", round, i)
						switch {
						case mode == "clear" || (mode == "mixed" && w == 0):
							if (i-from)%32 == 0 {
								c.Clear()
							}
						case mode == "delete-reput" || (mode == "mixed" && w == 1):
							c.Delete(k)
							c.Put(k, -i)
						default:
							c.Get(k)
							c.Put(k, -i)
						}
					}
				}(w)
			}
			wg.Add(1)
			go func() {
				defer wg.Done()
				<-start
				for i := 0; i < 2000; i++ {
					if s := c.Size(); s < 0 || s > capacity {
						report(fmt.Sprintf("Size() = %d on a cache of capacity %d during a sweep", s, capacity))
						return
					}
					if s := c.Stats().Size; s < 0 || s > capacity {
						report(fmt.Sprintf("Stats().Size = %d on a cache of capacity %d during a sweep", s, capacity))
						return
					}
				}
			}()
			began := time.Now()
			close(start)
			if !waitOrHang(&wg, 120*time.Second) {
				t.Fatalf("sweep with concurrent %s did not finish within 120 s (deadlock)\n%s", mode, dumpStacks())
			}
			if longLife && bad == "" {
				// every key was stored again after the round began (the last operation on each key is a Put),
				// nothing was cleared, n <= capacity: while less than half a lifetime has passed, all are present
				missing, first := 0, ""
				for i := 0; i < n; i++ {
					k := fmt.Sprintf("r%d-k%d", round, i)
					if v, ok := c.Get(k); !ok || v != -i {
						if missing == 0 {
							first = fmt.Sprintf("%q -> (%v, %v)", k, v, ok)
						}
						missing++
					}
				}
				if el := time.Since(began); el < ttl/2 {
					if missing > 0 {
						bad = fmt.Sprintf("%d of %d keys stored again during the sweeps (at most %v ago, lifetime %v) are gone or hold another value, e.g. %s: a sweep removes only expired entries", missing, n, el, ttl, first)
					}
					rec.Label("sweep-fresh-entries-checked")
				} else {
					rec.Label("sweep-fresh-entries-too-slow-to-judge")
				}
			}
			if bad == "" {
				if sz, ks, st := c.Size(), c.Keys(), c.Stats(); sz != len(ks) || st.Size != sz || sz < 0 || sz > capacity {
					bad = fmt.Sprintf("after the sweep: Size()=%d, %d keys listed, Stats().Size=%d (capacity %d)", sz, len(ks), st.Size, capacity)
				}
			}
			if bad == "" {
				// fill the cache with fresh keys: exactly these must remain (judged by the key listing,
				// which does not depend on how much of the tiny lifetime has passed meanwhile)
				for i := 0; i < capacity; i++ {
					c.Put(fmt.Sprintf("r%d-fresh%d", round, i), i)
				}
				ks := c.Keys()
				if sz := c.Size(); sz != capacity || len(ks) != capacity {
					bad = fmt.Sprintf("after inserting %d fresh keys into a cache of that capacity Size() = %d and %d keys are listed", capacity, sz, len(ks))
				} else {
					prefix := fmt.Sprintf("r%d-fresh", round)
					for _, k := range ks {
						if !strings.HasPrefix(k, prefix) {
							bad = fmt.Sprintf("after inserting %d fresh keys into a cache of that capacity the old key %q is still listed: a newer key was discarded in its place", capacity, k)
							break
						}
					}
				}
			}
			if bad != "" {
				saveCase("C11", "sweep", map[string]any{"test": "TestC11_SweepContention", "note": "schedule-dependent; re-run the check", "capacity": capacity, "mode": mode, "failure": bad})
				t.Fatalf("round %d, sweep of %d expired entries concurrent with %s: %s", round, n, mode, bad)
			}
			c.Clear()
		}
		rec.Case(true, map[string]any{"sweep_contention": true, "capacity": capacity, "ttl": ttl.String(), "mode": mode}, "sweep-contention", "sweep-mode:"+mode)
	})
}

// c11TwinOptions: a base option set and one-field deltas of it in every field.
func c11TwinOptions(words []string) []database.SearchOptions {
	base := database.SearchOptions{Limit: 5, UseNLP: true, UseFuzzy: true}
	w := func(i int) string { return words[i%len(words)] }
	mk := func(f func(o *database.SearchOptions)) database.SearchOptions {
		o := base
		f(&o)
		return o
	}
	return []database.SearchOptions{
		base,
		mk(func(o *database.SearchOptions) { o.Limit = 2 }),
		mk(func(o *database.SearchOptions) { o.Limit = 0 }),
		mk(func(o *database.SearchOptions) { o.ContextBoosts = map[string]float64{w(0): 3} }),
		mk(func(o *database.SearchOptions) { o.ContextBoosts = map[string]float64{w(1): 3} }),
		mk(func(o *database.SearchOptions) { o.PipelineOnly = true }),
		mk(func(o *database.SearchOptions) { o.PipelineBoost = 2 }),
		mk(func(o *database.SearchOptions) { o.UseFuzzy = false }),
		mk(func(o *database.SearchOptions) { o.FuzzyThreshold = 40 }),
		mk(func(o *database.SearchOptions) { o.UseNLP = false }),
		mk(func(o *database.SearchOptions) { o.TopTermsCap = 1 }),
		mk(func(o *database.SearchOptions) { o.AllPlatforms = true }),
		mk(func(o *database.SearchOptions) { o.Platforms = []string{"windows"} }),
		mk(func(o *database.SearchOptions) { o.Platforms = []string{"macos"} }),
		mk(func(o *database.SearchOptions) { o.NoCrossPlatform = true }),
		mk(func(o *database.SearchOptions) { o.Platforms = []string{"windows"}; o.NoCrossPlatform = true }),
	}
}
