package props

import (
	"bytes"
	"encoding/json"
	"fmt"
	"os"
	"path/filepath"
	"sort"
	"strings"
	"sync"
	"syscall"
	"testing"
	"time"

	"github.com/Vedant9500/WTF/internal/database"
	"github.com/Vedant9500/WTF/internal/history"
	"github.com/Vedant9500/WTF/verifharness/gen"
	"github.com/Vedant9500/WTF/verifharness/proc"
	"github.com/Vedant9500/WTF/verifharness/stat"
	"pgregory.net/rapid"
)

// C09 — an interrupted or failed write never damages the notebook or the history.
// Fault: RLIMIT_FSIZE = k in the child, so every write(2) to a regular file stops after
// k bytes (EFBIG) — the same prefix a kill, a full disk or a failed write leaves behind.

func runWtfLimited(h *proc.Home, dir string, args []string, fsize int64) proc.Result {
	return proc.Run(proc.Cmd{Path: proc.Wtf(), Args: args, Env: h.Env(), Dir: dir, Timeout: 30 * time.Second, FSize: fsize})
}

func readOrNil(p string) []byte {
	b, err := os.ReadFile(p)
	if err != nil {
		return nil
	}
	return b
}

// stopPoints returns every k in [0,n] when n <= 400, else a boundary set plus drawn points.
func stopPoints(t *rapid.T, oldLen, n int) ([]int, bool) {
	if n <= 400 {
		ks := make([]int, n+1)
		for i := range ks {
			ks[i] = i
		}
		return ks, true
	}
	set := map[int]bool{0: true, 1: true, n - 1: true, n: true, n + 1: true}
	for _, k := range []int{oldLen - 1, oldLen, oldLen + 1} {
		if k >= 0 && k <= n {
			set[k] = true
		}
	}
	for i := 0; i < 24; i++ {
		set[rapid.IntRange(0, n).Draw(t, "k")] = true
	}
	var ks []int
	for k := range set {
		ks = append(ks, k)
	}
	sort.Ints(ks)
	return ks, false
}

func sameEntries(a, b []database.Command) bool {
	if len(a) != len(b) {
		return false
	}
	for i := range a {
		if a[i].Command != b[i].Command || a[i].Description != b[i].Description {
			return false
		}
	}
	return true
}

func TestC09_Notebook(t *testing.T) {
	needWtf(t)
	rec := stat.For("C09")
	rec.Rule("fault enumeration. (1) notebook: generated (notebook state built by real saves, write op in {wtf save, wtf save-pipeline; new entry or replace}) pairs; the op runs in a child whose RLIMIT_FSIZE stops every file write after k bytes, for EVERY k in [0, len(new file)] when that is <= 400 bytes, else boundary points plus 24 drawn ones. Oracle: notebook bytes afterwards == old or == new (absent == old when it was absent); if != new no success line was printed; the notebook loads and still holds every old entry; an ordinary save issued afterwards in the same HOME produces exactly what it produces from that state without the event. (2) history: same for the history update made by a search; the file must load with exactly the old entries or the old entries plus the new search. Non-trivial = 0 < k < len(new) and old state non-empty.")
	exhaustivePairs, sampledPairs := 0, 0
	defer func() {
		r := stat.For("C09")
		r.Add("exhaustive_pairs", exhaustivePairs)
		r.Add("sampled_pairs", sampledPairs)
		r.Set("exhaustive", sampledPairs == 0)
	}()
	rapid.Check(t, func(t *rapid.T) {
		dir := mkdirWork("c09-")
		defer os.RemoveAll(dir)
		base, _ := proc.NewHome(dir)
		// build the old state with real, unfaulted saves
		nOld := rapid.IntRange(0, 3).Draw(t, "old-entries")
		var oldCmds []string
		for i := 0; i < nOld; i++ {
			c, _ := argvString(t, "old-cmd")
			d, _ := argvString(t, "old-desc")
			if c == "" {
				c = fmt.Sprintf("cmd%d", i)
			}
			r := runWtf(base, dir, []string{"save", "--", c, d})
			if !saidSaved(r.Stdout, "save") {
				t.Fatalf("harness: unfaulted save failed: %s %s", r.Stdout, r.Stderr)
			}
			oldCmds = append(oldCmds, c)
		}
		if b := readOrNil(base.Notebook()); len(b) > 0 && rapid.IntRange(0, 3).Draw(t, "hand-edited") == 0 {
			// the user has annotated the notebook by hand: comment lines and a document start marker
			text := "# my own commands\n---\n" + strings.Replace(string(b), "\n- ", "\n# next one\n- ", 1) + "# end\n"
			os.WriteFile(base.Notebook(), []byte(text), 0o644)
			if db, err := database.LoadDatabase(base.Notebook()); err != nil || len(db.Commands) != nOld {
				t.Fatalf("harness: annotated notebook no longer holds its %d entries: %v", nOld, err)
			}
		}
		fileMode := c09DrawModes(t, base)
		symlinked := rapid.IntRange(0, 4).Draw(t, "symlinked") == 0
		if symlinked {
			fileMode += "+symlink"
		}
		old := readOrNil(base.Notebook())
		var oldEntries []database.Command
		if old != nil {
			db, err := database.LoadDatabase(base.Notebook())
			if err != nil {
				t.Fatalf("harness: old notebook does not load: %v", err)
			}
			oldEntries = db.Commands
		}
		// the write op
		var args []string
		cmdStr, _ := argvString(t, "cmd")
		if len(oldCmds) > 0 && rapid.IntRange(0, 2).Draw(t, "replace") == 0 {
			cmdStr = oldCmds[rapid.IntRange(0, len(oldCmds)-1).Draw(t, "which")]
		}
		desc, _ := argvString(t, "desc")
		if rapid.IntRange(0, 2).Draw(t, "big-entry") == 0 {
			desc += " " + strings.Repeat("long description text ", rapid.IntRange(5, 40).Draw(t, "big-rep"))
		}
		okLine := "Command saved successfully!"
		if rapid.IntRange(0, 2).Draw(t, "pipeline") == 0 {
			args = []string{"save-pipeline", "--keywords=" + flagValue(t, "kw"), "--", "name", cmdStr}
			okLine = "Pipeline saved successfully!"
		} else {
			args = []string{"save", "--category=" + flagValue(t, "cat"), "--", cmdStr, desc}
		}
		// the unfaulted outcome
		ref := copyHome(t, dir, base)
		r0 := runWtf(ref, dir, args)
		if !saidSaved(r0.Stdout, okLine) {
			t.Fatalf("harness: unfaulted op failed: %s", r0.Stdout)
		}
		newBytes := readOrNil(ref.Notebook())
		// what a later, ordinary save must produce from either surviving state
		followArgs := []string{"save", "--", "follow-up", "short"}
		refOld := copyHomeRaw(dir, base)
		runWtf(refOld, dir, followArgs)
		followOnOld := readOrNil(refOld.Notebook())
		runWtf(ref, dir, followArgs)
		followOnNew := readOrNil(ref.Notebook())
		ks, exhaustive := stopPoints(t, len(old), len(newBytes))
		if exhaustive {
			exhaustivePairs++
		} else {
			sampledPairs++
		}
		type outcome struct {
			k   int
			msg string
			st  string
		}
		results := make([]outcome, len(ks))
		var wg sync.WaitGroup
		sem := make(chan struct{}, 16)
		for i, k := range ks {
			wg.Add(1)
			sem <- struct{}{}
			go func(i, k int) {
				defer wg.Done()
				defer func() { <-sem }()
				h := copyHomeRaw(dir, base)
				defer h.Remove()
				if symlinked {
					c09Symlink(h)
				}
				r := runWtfLimited(h, dir, args, int64(k))
				got := readOrNil(h.Notebook())
				o := outcome{k: k}
				switch {
				case r.Panicked() || r.TimedOut:
					o.msg = fmt.Sprintf("child crashed: exit %d %s", r.ExitCode, clip(r.Stderr))
				case bytes.Equal(got, newBytes):
					o.st = "new"
				case bytes.Equal(got, old):
					o.st = "old"
					if saidSaved(r.Stdout, okLine) {
						o.msg = "success was reported although the notebook still holds the previous content"
					}
				default:
					o.st = "damaged"
					o.msg = fmt.Sprintf("notebook holds %d bytes that are neither the previous (%d bytes) nor the new content (%d bytes): %+q", len(got), len(old), len(newBytes), clip(string(got)))
				}
				if o.msg == "" && got != nil && len(got) > 0 {
					db, err := database.LoadDatabase(h.Notebook())
					if err != nil {
						o.msg = "notebook no longer loads: " + clip(err.Error())
					} else if o.st == "old" && !sameEntries(db.Commands, oldEntries) {
						o.msg = "earlier entries changed"
					}
				}
				if o.msg == "" {
					// the event must not poison later saves either
					r2 := runWtf(h, dir, followArgs)
					got2 := readOrNil(h.Notebook())
					want2 := followOnOld
					if o.st == "new" {
						want2 = followOnNew
					}
					if !saidSaved(r2.Stdout, "save") {
						o.msg = "an ordinary save after the event failed: " + clip(r2.Stdout)
					} else if !bytes.Equal(got2, want2) {
						o.msg = fmt.Sprintf("an ordinary save after the event left %d bytes, expected the %d bytes the same save produces from the %s state: %+q", len(got2), len(want2), o.st, clip(string(got2)))
					}
				}
				results[i] = o
			}(i, k)
		}
		wg.Wait()
		for _, o := range results {
			if o.msg != "" {
				saveCase("C09", "notebook", map[string]any{"test": "TestC09_Notebook", "note": "re-run the check; ops and k recorded", "old_saves": oldCmds, "op": args, "k": o.k, "message": o.msg})
				t.Fatalf("write stopped after %d bytes: %s\n op=%+q old notebook=%d bytes new=%d bytes", o.k, o.msg, args, len(old), len(newBytes))
			}
			rec.Case(o.k > 0 && o.k < len(newBytes) && len(old) > 0, map[string]any{"target": "notebook", "op": args, "old_bytes": len(old), "new_bytes": len(newBytes), "k": o.k, "state_after": o.st, "file_mode": fileMode}, "notebook", "after:"+o.st, "mode:"+fileMode)
		}
	})
}

func copyHome(t *rapid.T, dir string, src *proc.Home) *proc.Home { return copyHomeRaw(dir, src) }

// copyHomeRaw clones the notebook and history of src into a fresh isolated home.
func copyHomeRaw(dir string, src *proc.Home) *proc.Home {
	h, _ := proc.NewHome(dir)
	for _, pair := range [][2]string{{src.Notebook(), h.Notebook()}, {src.History(), h.History()}} {
		if b, err := os.ReadFile(pair[0]); err == nil {
			os.MkdirAll(filepath.Dir(pair[1]), 0o755)
			mode := os.FileMode(0o644)
			if st, err := os.Stat(pair[0]); err == nil {
				mode = st.Mode().Perm() // the copy keeps the permission bits (a private 0600 notebook stays private)
			}
			os.WriteFile(pair[1], b, mode)
			os.Chmod(pair[1], mode)
		}
	}
	return h
}

// c09Symlink turns the notebook and the history of h into symbolic links to files kept in
// another directory (a dotfiles setup): whatever the writer does with the link, the content
// read through the configured path must stay whole.
func c09Symlink(h *proc.Home) {
	for i, p := range []string{h.Notebook(), h.History()} {
		if _, err := os.Lstat(p); err != nil {
			continue
		}
		real := filepath.Join(h.Dir, "dotfiles", fmt.Sprintf("f%d", i))
		os.MkdirAll(filepath.Dir(real), 0o755)
		if os.Rename(p, real) == nil {
			os.Symlink(real, p)
		}
	}
}

// c09FarDir returns a scratch directory on ANOTHER file system than the harness's work area
// (/dev/shm where it is a writable tmpfs on a different device), or "" when there is none.
func c09FarDir() string {
	const shm = "/dev/shm"
	a, err1 := os.Stat(shm)
	b, err2 := os.Stat(gen.WorkDir())
	if err1 != nil || err2 != nil || !a.IsDir() {
		return ""
	}
	sa, ok1 := a.Sys().(*syscall.Stat_t)
	sb, ok2 := b.Sys().(*syscall.Stat_t)
	if !ok1 || !ok2 || sa.Dev == sb.Dev {
		return ""
	}
	d, err := os.MkdirTemp(shm, "verif-c09-")
	if err != nil {
		return ""
	}
	return d
}

// c09SymlinkFar: the notebook and the history are symbolic links whose targets lie on another file
// system (a dotfiles checkout on another volume). Returns a cleanup function; false when there is
// no second file system here.
func c09SymlinkFar(h *proc.Home) (func(), bool) {
	far := c09FarDir()
	if far == "" {
		return func() {}, false
	}
	for i, p := range []string{h.Notebook(), h.History()} {
		fi, err := os.Lstat(p)
		if err != nil {
			continue
		}
		data, err := os.ReadFile(p)
		if err != nil {
			continue
		}
		real := filepath.Join(far, fmt.Sprintf("f%d", i))
		if os.WriteFile(real, data, fi.Mode().Perm()|0o200) == nil && os.Remove(p) == nil {
			os.Chmod(real, fi.Mode().Perm())
			os.Symlink(real, p)
		}
	}
	return func() { os.RemoveAll(far) }, true
}

// c09DrawModes gives the notebook and the history of h permission bits other than the 0644
// the tool creates them with (a user's chmod, an older version, a restrictive umask).
func c09DrawModes(t *rapid.T, h *proc.Home) string {
	m := rapid.SampledFrom([]os.FileMode{0o644, 0o644, 0o600, 0o640, 0o664, 0o666, 0o400}).Draw(t, "file-mode")
	os.Chmod(h.Notebook(), m)
	os.Chmod(h.History(), m)
	return fmt.Sprintf("%04o", m)
}

// loadHist reads a history file for the oracle. The entries are decoded by the harness itself; the
// real loader is run on a scratch copy, so that whatever it does to the file it is given cannot
// change the state under examination, and its verdict ("loads" / "does not load") is reported.
func loadHist(p string) ([]history.SearchEntry, error) {
	if _, err := os.Stat(p); err != nil {
		return nil, nil
	}
	b, _ := os.ReadFile(p)
	if len(b) == 0 {
		return nil, nil // an empty file reads as an empty history
	}
	scratch := gen.TempPath(".json")
	defer os.Remove(scratch)
	if err := os.WriteFile(scratch, b, 0o644); err != nil {
		return nil, fmt.Errorf("harness: %v", err)
	}
	sh := history.NewSearchHistory(scratch, 100)
	if err := sh.Load(); err != nil {
		return nil, err
	}
	var doc struct {
		Entries []history.SearchEntry `json:"entries"`
	}
	if err := json.Unmarshal(b, &doc); err != nil {
		return nil, fmt.Errorf("the loader accepts the file, a plain JSON decode does not: %v", err)
	}
	if len(doc.Entries) != len(sh.Entries) {
		return nil, fmt.Errorf("the loader reads %d entries, the file holds %d", len(sh.Entries), len(doc.Entries))
	}
	return doc.Entries, nil
}

func TestC09_History(t *testing.T) {
	needWtf(t)
	rec := stat.For("C09")
	exhaustivePairs, sampledPairs := 0, 0
	defer func() {
		r := stat.For("C09")
		r.Add("exhaustive_pairs", exhaustivePairs)
		r.Add("sampled_pairs", sampledPairs)
		r.Set("exhaustive", sampledPairs == 0)
	}()
	rapid.Check(t, func(t *rapid.T) {
		dir := mkdirWork("c09h-")
		defer os.RemoveAll(dir)
		base, _ := proc.NewHome(dir)
		dbp := filepath.Join(dir, "db.yml")
		os.WriteFile(dbp, gen.EmitYAML(c08Main), 0o644)
		queries := []string{"list", "compress directory", "disk", "zzqx nothing", "running processes"}
		nOld := rapid.IntRange(0, 3).Draw(t, "old-searches")
		wantForeign := rapid.IntRange(0, 2).Draw(t, "foreign-file") == 0
		if wantForeign && nOld < 2 {
			nOld = 3
		}
		if rapid.IntRange(0, 2).Draw(t, "full-history") == 0 {
			// a history at (or one below) its 100-entry bound, so that recording also trims
			n := rapid.SampledFrom([]int{100, 99, 100}).Draw(t, "full-n")
			sh := history.NewSearchHistory(base.History(), 100)
			for i := 0; i < n; i++ {
				sh.AddEntry(fmt.Sprintf("old query %d", i), i%7, "", time.Duration(i)*time.Millisecond)
			}
			if err := sh.Save(); err != nil {
				t.Fatalf("harness: %v", err)
			}
			nOld = 0
		}
		for i := 0; i < nOld; i++ {
			runWtf(base, dir, []string{"--no-color", "-d", dbp, "--", rapid.SampledFrom(queries).Draw(t, "oldq")})
		}
		oldEntries, err := loadHist(base.History())
		if err != nil {
			t.Fatalf("harness: old history does not load: %v", err)
		}
		foreign := ""
		if b := readOrNil(base.History()); len(b) > 0 && wantForeign {
			// a history written by another version or edited by hand: same entries, but the size
			// limit recorded in the file is missing, zero or negative (read as the default)
			var doc map[string]json.RawMessage
			if json.Unmarshal(b, &doc) == nil {
				foreign = rapid.SampledFrom([]string{"0", "-1", "absent", "null"}).Draw(t, "foreign-max-size")
				if foreign == "absent" {
					delete(doc, "max_size")
				} else {
					doc["max_size"] = json.RawMessage(foreign)
				}
				nb, _ := json.MarshalIndent(doc, "", "  ")
				os.WriteFile(base.History(), nb, 0o644)
				again, err := loadHist(base.History())
				if err != nil || len(again) != len(oldEntries) {
					t.Fatalf("harness: history with max_size %s no longer loads its %d entries: %v", foreign, len(oldEntries), err)
				}
			}
		}
		fileMode := c09DrawModes(t, base)
		symlinked := rapid.IntRange(0, 4).Draw(t, "symlinked") == 0
		if symlinked {
			fileMode += "+symlink"
		}
		if foreign != "" {
			fileMode += "+max_size:" + foreign
		}
		oldBytes := readOrNil(base.History())
		q := rapid.SampledFrom(queries).Draw(t, "q")
		args := []string{"--no-color", "-d", dbp, "--", q}
		ref := copyHomeRaw(dir, base)
		r0 := runWtf(ref, dir, args)
		newLen := len(readOrNil(ref.History())) + 8 // timestamps and durations vary by a few bytes
		want0 := len(parseList(r0.Stdout))
		ks, exhaustive := stopPoints(t, len(oldBytes), newLen)
		if exhaustive {
			exhaustivePairs++
		} else {
			sampledPairs++
		}
		type outcome struct {
			k       int
			msg, st string
		}
		results := make([]outcome, len(ks))
		var wg sync.WaitGroup
		sem := make(chan struct{}, 16)
		for i, k := range ks {
			wg.Add(1)
			sem <- struct{}{}
			go func(i, k int) {
				defer wg.Done()
				defer func() { <-sem }()
				h := copyHomeRaw(dir, base)
				defer h.Remove()
				if symlinked {
					c09Symlink(h)
				}
				r := runWtfLimited(h, dir, args, int64(k))
				o := outcome{k: k}
				got, err := loadHist(h.History())
				switch {
				case r.Panicked() || r.TimedOut:
					o.msg = fmt.Sprintf("child crashed: exit %d %s", r.ExitCode, clip(r.Stderr))
				case !strings.Contains(r.Stdout, "Searching for: "+q) || len(parseList(r.Stdout)) != want0:
					o.msg = "the search itself did not print its results: " + clip(r.Stdout)
				case err != nil:
					o.st = "damaged"
					o.msg = fmt.Sprintf("history file no longer loads (%v): %+q", err, clip(string(readOrNil(h.History()))))
				default:
					o.st, o.msg = histRelation(oldEntries, got, q)
				}
				if o.msg == "" {
					// a later, ordinary search must simply append to whichever state survived
					fq := "follow up query"
					runWtf(h, dir, []string{"--no-color", "-d", dbp, "--", fq})
					got2, err2 := loadHist(h.History())
					if err2 != nil {
						o.msg = fmt.Sprintf("after a later ordinary search the history no longer loads: %v", err2)
					} else if st2, m := histRelation(got, got2, fq); m != "" || st2 != "new" || (len(got2) != len(got)+1 && len(got) < 100) {
						o.msg = fmt.Sprintf("a later ordinary search did not simply append to the surviving history (%d -> %d entries) %s", len(got), len(got2), m)
					}
				}
				results[i] = o
			}(i, k)
		}
		wg.Wait()
		for _, o := range results {
			if o.msg != "" {
				saveCase("C09", "history", map[string]any{"test": "TestC09_History", "query": q, "k": o.k, "message": o.msg})
				t.Fatalf("history write stopped after %d bytes: %s\n old history=%d bytes (%d entries)", o.k, o.msg, len(oldBytes), len(oldEntries))
			}
			rec.Case(o.k > 0 && o.k < newLen-8 && len(oldEntries) > 0, map[string]any{"target": "history", "query": q, "old_bytes": len(oldBytes), "k": o.k, "state_after": o.st, "file_mode": fileMode}, "history", "after:"+o.st, "mode:"+fileMode)
		}
	})
}

// histRelation classifies the history after a faulted search: "old" (unchanged) or
// "new" (old plus the new search, or last entry updated on an immediate repeat).
func histRelation(old, got []history.SearchEntry, q string) (string, string) {
	eq := func(a, b history.SearchEntry) bool {
		return a.Query == b.Query && a.ResultsCount == b.ResultsCount && a.Timestamp.Equal(b.Timestamp)
	}
	if len(got) == len(old) {
		same := true
		for i := range old {
			if !eq(old[i], got[i]) {
				same = false
			}
		}
		if same {
			return "old", ""
		}
		// a full history: the oldest entry dropped, the new search appended
		if len(old) > 1 && got[len(got)-1].Query == q {
			shifted := true
			for i := 0; i+1 < len(old); i++ {
				if !eq(old[i+1], got[i]) {
					shifted = false
				}
			}
			if shifted {
				return "new", ""
			}
		}
		// immediate repeat: last entry replaced
		if len(old) > 0 && old[len(old)-1].Query == q && got[len(got)-1].Query == q {
			for i := 0; i < len(old)-1; i++ {
				if !eq(old[i], got[i]) {
					return "damaged", fmt.Sprintf("entry %d changed", i)
				}
			}
			return "new", ""
		}
		return "damaged", "entries differ from the previous history"
	}
	if len(got) == len(old)+1 && got[len(got)-1].Query == q {
		for i := range old {
			if !eq(old[i], got[i]) {
				return "damaged", fmt.Sprintf("entry %d changed", i)
			}
		}
		return "new", ""
	}
	return "damaged", fmt.Sprintf("history holds %d entries, previously %d", len(got), len(old))
}
