package props

import (
	"bytes"
	"fmt"
	"os"
	"os/exec"
	"path/filepath"
	"regexp"
	"sort"
	"strings"
	"sync"
	"testing"
	"time"

	"github.com/Vedant9500/WTF/internal/database"
	"github.com/Vedant9500/WTF/internal/history"
	"github.com/Vedant9500/WTF/verifharness/gen"
	"github.com/Vedant9500/WTF/verifharness/proc"
	"github.com/Vedant9500/WTF/verifharness/stat"
	"pgregory.net/rapid"
)

// Crash-point enumeration for C09. The write op runs once under `strace -f` to list the
// system calls it makes (openat / write / fsync / close / rename* / unlink* / mkdir* /
// fchmod* / ftruncate ...); then it is re-run once per (system call name, k-th occurrence)
// with strace's fault injection: either the process is killed with SIGKILL on ENTRY to that
// call (a crash or power cut exactly there), or - from the creation of the temporary file
// onwards, the write phase - the call fails with EIO / ENOSPC / EDQUOT (a failed write, a full
// disk, a failed rename). Calls of the read phase are only crashed at, never failed: what a
// failed READ of the old file does is outside the property. Same oracle as the byte-limit
// enumeration.

var c09Syscalls = "openat,write,pwrite64,fsync,fdatasync,close,rename,renameat,renameat2,unlink,unlinkat,mkdir,mkdirat,chmod,fchmod,fchmodat,ftruncate,link,linkat"

var straceLine = regexp.MustCompile(`^\d+\s+(\w+)\(`)

var (
	straceOnce sync.Once
	straceOK   bool
	stracePath string
)

// straceUsable probes fault injection once: `true` must die of SIGKILL at its first close.
func straceUsable() bool {
	straceOnce.Do(func() {
		p, err := exec.LookPath("strace")
		if err != nil {
			return
		}
		stracePath = p
		tr, err := exec.LookPath("true")
		if err != nil {
			return
		}
		r := proc.Run(proc.Cmd{Path: p, Args: []string{"-f", "-o", "/dev/null", "-e", "trace=close", "-e", "inject=close:signal=KILL:when=1", tr}, Timeout: 20 * time.Second, FSize: -1})
		straceOK = r.ExitCode == 137 || r.Signaled
	})
	return straceOK
}

type crashPoint struct {
	Sys   string
	N     int
	Mode  string // kill | EIO | ENOSPC
	FSize int64  // -1, or a byte limit in force as well (a second fault: whatever is written after the first one stops there)
}

func (c crashPoint) String() string {
	if c.FSize >= 0 {
		return fmt.Sprintf("%s#%d:%s+limit%d", c.Sys, c.N, c.Mode, c.FSize)
	}
	return fmt.Sprintf("%s#%d:%s", c.Sys, c.N, c.Mode)
}

// traceOp runs the op under strace in home h and returns the ordered syscall names and the
// position of the call that creates the temporary file (the start of the write phase).
func traceOp(h *proc.Home, dir string, args []string) ([]string, int, proc.Result) {
	tf := filepath.Join(h.Dir, "strace.out")
	sa := append([]string{"-f", "-o", tf, "-e", "trace=" + c09Syscalls, proc.Wtf()}, args...)
	r := proc.Run(proc.Cmd{Path: stracePath, Args: sa, Env: h.Env(), Dir: dir, Timeout: 60 * time.Second, FSize: -1})
	data, _ := os.ReadFile(tf)
	os.Remove(tf)
	var names []string
	create := -1
	for _, l := range strings.Split(string(data), "\n") {
		if m := straceLine.FindStringSubmatch(l); m != nil {
			if create < 0 && strings.HasPrefix(m[1], "open") && strings.Contains(l, "O_CREAT") {
				create = len(names)
			}
			names = append(names, m[1])
		}
	}
	if create < 0 {
		create = len(names)
	}
	return names, create, r
}

func runFaulted(h *proc.Home, dir string, args []string, cp crashPoint) proc.Result {
	inj := fmt.Sprintf("inject=%s:signal=KILL:when=%d", cp.Sys, cp.N)
	if cp.Mode != "kill" {
		inj = fmt.Sprintf("inject=%s:error=%s:when=%d", cp.Sys, cp.Mode, cp.N)
	}
	sa := append([]string{"-f", "-o", "/dev/null", "-e", "trace=" + cp.Sys, "-e", inj, proc.Wtf()}, args...)
	return proc.Run(proc.Cmd{Path: stracePath, Args: sa, Env: h.Env(), Dir: dir, Timeout: 60 * time.Second, FSize: cp.FSize})
}

// crashPoints turns a syscall trace into the list of injection points: every occurrence of
// every traced call except the dozens of start-up opens, of which the last six are kept.
func crashPoints(t *rapid.T, names []string, create int) []crashPoint {
	count, before := map[string]int{}, map[string]int{}
	for i, n := range names {
		count[n]++
		if i < create {
			before[n]++ // read phase: loading the database, the notebook, the old history
		}
	}
	var sys []string
	for n := range count {
		sys = append(sys, n)
	}
	sort.Strings(sys)
	var out []crashPoint
	for _, s := range sys {
		from := 1
		if (s == "openat" || s == "close") && count[s] > 8 {
			from = count[s] - 7
		}
		for k := from; k <= count[s]+1; k++ { // +1: a point that is never reached (control)
			out = append(out, crashPoint{s, k, "kill", -1})
			if k <= before[s] && !strings.HasPrefix(s, "mkdir") {
				continue // the property is about failed WRITES: calls of the read phase are only crashed at, not failed
			}
			mode := "EIO"
			if s == "write" || s == "pwrite64" || s == "openat" || s == "mkdirat" || s == "ftruncate" {
				mode = rapid.SampledFrom([]string{"ENOSPC", "EIO", "EDQUOT"}).Draw(t, "errno")
			}
			out = append(out, crashPoint{s, k, mode, -1})
			if k > before[s] && k <= count[s] && (strings.HasPrefix(s, "open") || s == "fsync" || strings.HasPrefix(s, "rename")) {
				// fault sequence: the call fails AND the disk is full for whatever the tool writes next
				out = append(out, crashPoint{s, k, mode, rapid.SampledFrom([]int64{0, 1, 40}).Draw(t, "then-limit")})
			}
		}
	}
	return out
}

func TestC09_CrashPoints(t *testing.T) {
	needWtf(t)
	rec := stat.For("C09")
	rec.Rule("(3) crash points: the same notebook / history write ops run under `strace -f` fault injection, once per (system call name in {openat, write, fsync, close, rename*, unlink*, mkdir*, fchmod*, ftruncate, ...}, k-th occurrence) taken from a traced dry run, in two modes: SIGKILL on entry to the call (crash exactly there) and failure of the call with EIO / ENOSPC / EDQUOT. Oracle as in (1)/(2): complete previous or complete new content, loads, earlier entries intact, success reported only with the new content, a later ordinary op proceeds from the surviving state. Non-trivial = the fault hits a call made after the temporary file was opened.")
	rapid.Check(t, func(t *rapid.T) {
		if !straceUsable() {
			rec.Case(false, map[string]any{"crash_points": "strace fault injection is not usable here; tier (3) skipped"}, "strace-unavailable")
			return
		}
		dir := mkdirWork("c09c-")
		defer os.RemoveAll(dir)
		base, _ := proc.NewHome(dir)
		target := rapid.SampledFrom([]string{"notebook", "notebook", "history"}).Draw(t, "target")
		dbp := filepath.Join(dir, "db.yml")
		os.WriteFile(dbp, gen.EmitYAML(c08Main), 0o644)
		queries := []string{"list", "compress directory", "disk", "zzqx nothing", "running processes"}
		var args, followArgs []string
		okLine := ""
		q := ""
		if target == "notebook" {
			nOld := rapid.IntRange(0, 3).Draw(t, "old-entries")
			var oldCmds []string
			for i := 0; i < nOld; i++ {
				c, _ := argvString(t, "old-cmd")
				d, _ := argvString(t, "old-desc")
				if c == "" {
					c = fmt.Sprintf("cmd%d", i)
				}
				if r := runWtf(base, dir, []string{"save", "--", c, d}); !saidSaved(r.Stdout, "save") {
					t.Fatalf("harness: unfaulted save failed: %s %s", r.Stdout, r.Stderr)
				}
				oldCmds = append(oldCmds, c)
			}
			cmdStr, _ := argvString(t, "cmd")
			if len(oldCmds) > 0 && rapid.IntRange(0, 2).Draw(t, "replace") == 0 {
				cmdStr = oldCmds[rapid.IntRange(0, len(oldCmds)-1).Draw(t, "which")]
			}
			desc, _ := argvString(t, "desc")
			okLine = "Command saved successfully!"
			if rapid.IntRange(0, 2).Draw(t, "pipeline") == 0 {
				args = []string{"save-pipeline", "--keywords=" + flagValue(t, "kw"), "--", "name", cmdStr}
				okLine = "Pipeline saved successfully!"
			} else {
				args = []string{"save", "--category=" + flagValue(t, "cat"), "--", cmdStr, desc}
			}
			followArgs = []string{"save", "--", "follow-up", "short"}
		} else {
			if rapid.IntRange(0, 2).Draw(t, "full-history") == 0 {
				sh := history.NewSearchHistory(base.History(), 100)
				for i := 0; i < 100; i++ {
					sh.AddEntry(fmt.Sprintf("old query %d", i), i%7, "", time.Duration(i)*time.Millisecond)
				}
				if err := sh.Save(); err != nil {
					t.Fatalf("harness: %v", err)
				}
			} else {
				for i := rapid.IntRange(0, 3).Draw(t, "old-searches"); i > 0; i-- {
					runWtf(base, dir, []string{"--no-color", "-d", dbp, "--", rapid.SampledFrom(queries).Draw(t, "oldq")})
				}
			}
			q = rapid.SampledFrom(queries).Draw(t, "q")
			args = []string{"--no-color", "-d", dbp, "--", q}
			followArgs = []string{"--no-color", "-d", dbp, "--", "follow up query"}
		}
		fileMode := c09DrawModes(t, base)
		symlinked := rapid.IntRange(0, 4).Draw(t, "symlinked") == 0
		farLink := !symlinked && rapid.IntRange(0, 3).Draw(t, "symlinked-to-another-file-system") == 0
		if symlinked {
			fileMode += "+symlink"
		}
		if farLink {
			fileMode += "+far-symlink"
		}
		oldNB := readOrNil(base.Notebook())
		var oldEntries []database.Command
		if oldNB != nil {
			db, err := database.LoadDatabase(base.Notebook())
			if err != nil {
				t.Fatalf("harness: old notebook does not load: %v", err)
			}
			oldEntries = db.Commands
		}
		oldHist, err := loadHist(base.History())
		if err != nil {
			t.Fatalf("harness: old history does not load: %v", err)
		}
		// traced, unfaulted run: the syscall list and the new content
		refH := copyHomeRaw(dir, base)
		names, create, r0 := traceOp(refH, dir, args)
		if target == "notebook" && !saidSaved(r0.Stdout, okLine) {
			t.Fatalf("harness: traced op failed: %s %s", r0.Stdout, clip(r0.Stderr))
		}
		if len(names) == 0 {
			t.Fatalf("harness: empty syscall trace: %s", clip(r0.Stderr))
		}
		newNB := readOrNil(refH.Notebook())
		want0 := len(parseList(r0.Stdout))
		refOld := copyHomeRaw(dir, base)
		runWtf(refOld, dir, followArgs)
		followOnOld := readOrNil(refOld.Notebook())
		runWtf(refH, dir, followArgs)
		followOnNew := readOrNil(refH.Notebook())
		// index of the first call after the temporary file was created (for the non-trivial rule)
		points := crashPoints(t, names, create)
		type outcome struct {
			cp      crashPoint
			msg, st string
		}
		results := make([]outcome, len(points))
		var wg sync.WaitGroup
		sem := make(chan struct{}, 12)
		for i, cp := range points {
			wg.Add(1)
			sem <- struct{}{}
			go func(i int, cp crashPoint) {
				defer wg.Done()
				defer func() { <-sem }()
				h := copyHomeRaw(dir, base)
				defer h.Remove()
				if symlinked {
					c09Symlink(h)
				}
				if farLink {
					cleanup, _ := c09SymlinkFar(h)
					defer cleanup()
				}
				r := runFaulted(h, dir, args, cp)
				o := outcome{cp: cp}
				if r.TimedOut {
					o.msg = "the op did not finish within 60 s"
					results[i] = o
					return
				}
				if cp.Mode != "kill" && r.Panicked() {
					o.msg = fmt.Sprintf("child crashed on a failing %s: %s", cp.Sys, clip(r.Stderr))
					results[i] = o
					return
				}
				if target == "notebook" {
					got := readOrNil(h.Notebook())
					switch {
					case bytes.Equal(got, newNB):
						o.st = "new"
					case bytes.Equal(got, oldNB):
						o.st = "old"
						if saidSaved(r.Stdout, okLine) {
							o.msg = "success was reported although the notebook still holds the previous content"
						}
					default:
						o.st = "damaged"
						o.msg = fmt.Sprintf("notebook holds %d bytes that are neither the previous (%d bytes) nor the new content (%d bytes): %+q", len(got), len(oldNB), len(newNB), clip(string(got)))
					}
					if o.msg == "" && len(got) > 0 {
						db, err := database.LoadDatabase(h.Notebook())
						if err != nil {
							o.msg = "notebook no longer loads: " + clip(err.Error())
						} else if o.st == "old" && !sameEntries(db.Commands, oldEntries) {
							o.msg = "earlier entries changed"
						}
					}
					if o.msg == "" {
						if i%2 == 0 {
							c09AgeHome(h) // the next use comes hours later: whatever the event left behind is old by then
						}
						r2 := runWtf(h, dir, followArgs)
						got2 := readOrNil(h.Notebook())
						want2 := followOnOld
						if o.st == "new" {
							want2 = followOnNew
						}
						if !saidSaved(r2.Stdout, "save") {
							o.msg = "an ordinary save after the event failed: " + clip(r2.Stdout)
						} else if !bytes.Equal(got2, want2) {
							o.msg = fmt.Sprintf("an ordinary save after the event left %d bytes, expected the %d bytes the same save produces from the %s state", len(got2), len(want2), o.st)
						}
					}
				} else {
					got, err := loadHist(h.History())
					switch {
					case err != nil:
						o.st = "damaged"
						o.msg = fmt.Sprintf("history file no longer loads (%v): %+q", err, clip(string(readOrNil(h.History()))))
					default:
						o.st, o.msg = histRelation(oldHist, got, q)
					}
					if o.msg == "" && cp.Mode != "kill" && cp.Sys != "write" && cp.Sys != "openat" && cp.Sys != "close" {
						// a failing fsync / rename / unlink of the history must not cost the user the answer
						if !strings.Contains(r.Stdout, "Searching for: "+q) || len(parseList(r.Stdout)) != want0 {
							o.msg = "the search itself did not print its results: " + clip(r.Stdout)
						}
					}
					if o.msg == "" {
						if i%2 == 0 {
							c09AgeHome(h)
						}
						runWtf(h, dir, followArgs)
						got2, err2 := loadHist(h.History())
						if err2 != nil {
							o.msg = fmt.Sprintf("after a later ordinary search the history no longer loads: %v", err2)
						} else if st2, m := histRelation(got, got2, "follow up query"); m != "" || st2 != "new" || (len(got2) != len(got)+1 && len(got) < 100) {
							o.msg = fmt.Sprintf("a later ordinary search did not simply append to the surviving history (%d -> %d entries) %s", len(got), len(got2), m)
						}
					}
				}
				results[i] = o
			}(i, cp)
		}
		wg.Wait()
		for _, o := range results {
			if o.msg != "" {
				saveCase("C09", "crashpoint", map[string]any{"test": "TestC09_CrashPoints", "target": target, "op": args, "point": o.cp.String(), "message": o.msg, "trace": strings.Join(names, " ")})
				t.Fatalf("%s op %+q with fault %s: %s\n syscalls of the unfaulted run: %v", target, args, o.cp, o.msg, names)
			}
			late := o.cp.N > 0 && o.cp.Sys != "mkdirat" && o.cp.Sys != "mkdir" && (o.cp.Sys != "openat" || o.cp.Mode != "kill")
			rec.Case(late, map[string]any{"target": target, "op": args, "point": o.cp.String(), "state_after": o.st, "file_mode": fileMode}, "crash-point", "mode:"+fileMode, "crash:"+o.cp.Mode, "crash-sys:"+o.cp.Sys, "after:"+o.st)
		}
	})
}

// c09AgeHome sets the modification time of everything under the home directory two hours back.
func c09AgeHome(h *proc.Home) {
	then := time.Now().Add(-2 * time.Hour)
	_ = filepath.Walk(h.Dir, func(p string, info os.FileInfo, err error) error {
		if err == nil && info.Mode()&os.ModeSymlink == 0 {
			_ = os.Chtimes(p, then, then)
		}
		return nil
	})
}
