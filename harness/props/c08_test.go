package props

import (
	"fmt"
	"os"
	"path/filepath"
	"strings"
	"testing"
	"unicode/utf8"

	"github.com/Vedant9500/WTF/internal/database"
	"github.com/Vedant9500/WTF/verifharness/gen"
	"github.com/Vedant9500/WTF/verifharness/proc"
	"github.com/Vedant9500/WTF/verifharness/ref"
	"github.com/Vedant9500/WTF/verifharness/stat"
	"pgregory.net/rapid"
)

// C08 — a saved command is stored faithfully, keeps its neighbours, is searchable.

// argvString draws a string a shell can pass (no NUL) and names its class.
func argvString(t *rapid.T, label string) (string, string) {
	cls := rapid.SampledFrom([]string{"plain", "plain", "plain", "yaml", "yaml", "multiline", "multiline", "composed-multiline", "composed-multiline", "control", "invalid-utf8", "empty", "unicode"}).Draw(t, label+"-class")
	switch cls {
	case "composed-multiline":
		// 2-4 lines put together from: a first character that means something to a YAML writer or reader
		// (indicators, every kind of blank and line break Unicode has), words, a line break of any
		// kind, indentation, an ending with or without breaks
		starts := []string{"", "", " ", "\t", "\n", "\r", "\u0085", "\u2028", "\u2029", "\u00a0", "\ufeff", "\u200b", "\u3000", "-", "- ", "#", "|", ">", ":", "?", "? ", "%", "@", "`", "\"", "'", "!", "&", "*", "{", "[", "]", "}", ",", "---", "..."}
		breaks := []string{"\n", "\n", "\n", "\r\n", "\n\n", "\n ", "\n\t", "\n  ", "\u2028\n", "\n\u2029", "\u0085\n", "\n\u2028"}
		b := rapid.SampledFrom(starts).Draw(t, label+"-start")
		for i, n := 0, rapid.IntRange(2, 4).Draw(t, label+"-lines"); i < n; i++ {
			if i > 0 {
				b += rapid.SampledFrom(breaks).Draw(t, label+"-break")
				if rapid.IntRange(0, 3).Draw(t, label+"-line-start") == 0 {
					b += rapid.SampledFrom(starts).Draw(t, label+"-start2")
				}
			}
			b += gen.Text(1, 3).Draw(t, label+"-line")
		}
		return b + rapid.SampledFrom([]string{"", "", "\n", "\n\n", " ", "\u2028"}).Draw(t, label+"-end"), cls
	case "plain":
		return gen.Text(1, 5).Draw(t, label), cls
	case "yaml":
		return rapid.SampledFrom([]string{"- a", "a: b", "# x", "'quoted'", "\"dq\"", "{{.Names}}", "null", "true", "123", "~", "|", ">", "---", "key: [a, b]", "&anchor x", "*alias", "!tag v", "%TAG", "@at", "`bt`", "a #c", ": lead", "- ", "?", "0x1f", "1e3", "no", "100% cpu", "%s %d%%", "50%", "docker ps --format 'table {{.Names}}\\t{{.Status}}'", "find . -name '*.go' -exec gofmt -w {} \\;", " leading", "trailing ", "  both  ", "a\\nb", "tab\there"}).Draw(t, label), cls
	case "multiline":
		return rapid.SampledFrom([]string{"\nfoo", "a\nb", " a\nb", "\n\na", "\n", "\n\n", "a\n", "a\n\n", "  indented\n    more\n", "line1\r\nline2", "a\n b\n  c", "\n- x\n- y", "key: |\n  text", "x\n\n\ny", "\ttab\nnext", "a\n#b"}).Draw(t, label), cls
	case "control":
		return rapid.SampledFrom([]string{"\x01", "a\x1bb", "\x7f", "bell\x07", "\x1b[31mred\x1b[0m", "a\u0085b", "\u2028sep", "\ufeffbom", "x\u200by", "\r", "a\rb", "\x0b", "\x0c"}).Draw(t, label), cls
	case "invalid-utf8":
		return rapid.SampledFrom([]string{"\xff", "a\xffb", "\xc3", "ok \xe2\x82", "\xf0\x9f\x98", "\x80\x81 text"}).Draw(t, label), cls
	case "empty":
		return "", cls
	default:
		return gen.TextOf(gen.UWord(true), 1, 3).Draw(t, label), cls
	}
}

// flagValue draws a keyword/platform value that pflag's CSV reader passes through unchanged.
func flagValue(t *rapid.T, label string) string {
	v := rapid.OneOf(
		rapid.SampledFrom([]string{"backup", "linux", "macos", "a b", "k8s", "- x", "a: b", "#h", "{{x}}", "null", "true", "12", "'q'", "ünï", " sp", "x\ty"}),
		gen.Word(),
	).Draw(t, label)
	v = strings.Map(func(r rune) rune {
		if r == ',' || r == '"' || r == '\r' || r == '\n' || r == 0 {
			return -1
		}
		return r
	}, v)
	if v == "" {
		v = "kw"
	}
	return v
}

type savedEntry struct {
	Command, Description, Niche string
	Keywords, Platform, Tags    []string
	Pipeline                    bool
	AutoDesc                    bool     // save-pipeline without --description
	AutoName                    string   // ... in which case the given name is what the description is made from
	UserKeywords                []string // save-pipeline: suffix of stored keywords
}

var pipelineAutoKeywords = map[string]bool{"pipeline": true, "workflow": true, "search": true, "filter": true, "text": true, "processing": true, "sort": true, "order": true, "find": true}

func sameList(a, b []string) bool {
	if len(a) != len(b) {
		return false
	}
	for i := range a {
		if a[i] != b[i] {
			return false
		}
	}
	return true
}

// matchSaved compares a reloaded entry with the model entry; "" when equal.
func matchSaved(got database.Command, want savedEntry) string {
	if got.Command != want.Command {
		return fmt.Sprintf("command %+q, saved %+q", got.Command, want.Command)
	}
	if want.AutoDesc {
		if got.Description == "" {
			return "pipeline saved without --description has an empty description"
		}
		if !strings.Contains(got.Description, want.AutoName) {
			return fmt.Sprintf("pipeline saved under the name %+q without --description: the stored description %+q does not contain the name", want.AutoName, got.Description)
		}
	} else if got.Description != want.Description {
		return fmt.Sprintf("description %+q, saved %+q", got.Description, want.Description)
	}
	if got.Niche != want.Niche {
		return fmt.Sprintf("category %+q, saved %+q", got.Niche, want.Niche)
	}
	if !sameList(got.Platform, want.Platform) {
		return fmt.Sprintf("platforms %+q, saved %+q", got.Platform, want.Platform)
	}
	if got.Pipeline != want.Pipeline {
		return fmt.Sprintf("pipeline flag %v, saved %v", got.Pipeline, want.Pipeline)
	}
	if !sameList(got.Tags, want.Tags) {
		return fmt.Sprintf("tags %+q, were %+q", got.Tags, want.Tags)
	}
	if want.UserKeywords != nil || want.Pipeline && want.AutoDesc {
		n := len(want.UserKeywords)
		if len(got.Keywords) < n || !sameList(got.Keywords[len(got.Keywords)-n:], want.UserKeywords) {
			return fmt.Sprintf("keywords %+q do not end with the user's keywords %+q", got.Keywords, want.UserKeywords)
		}
		for _, k := range got.Keywords[:len(got.Keywords)-n] {
			if !pipelineAutoKeywords[k] {
				return fmt.Sprintf("keyword %+q is neither the user's nor one of the documented automatic keywords", k)
			}
		}
	} else if !sameList(got.Keywords, want.Keywords) {
		return fmt.Sprintf("keywords %+q, saved %+q", got.Keywords, want.Keywords)
	}
	return ""
}

func compareNotebook(path string, model []savedEntry) string {
	db, err := database.LoadDatabase(path)
	if err != nil {
		return "the notebook no longer loads after a successful save: " + clip(err.Error())
	}
	if len(db.Commands) != len(model) {
		var cs []string
		for _, c := range db.Commands {
			cs = append(cs, fmt.Sprintf("%+q", c.Command))
		}
		return fmt.Sprintf("notebook holds %d entries %v, expected %d", len(db.Commands), cs, len(model))
	}
	for i := range model {
		if msg := matchSaved(db.Commands[i], model[i]); msg != "" {
			return fmt.Sprintf("entry %d: %s", i, msg)
		}
	}
	return ""
}

var c08Main = []database.Command{
	{Command: "ls -la", Description: "list directory contents", Keywords: []string{"list"}},
	{Command: "tar -czf a.tgz d", Description: "compress a directory", Keywords: []string{"archive"}},
	{Command: "grep -r x .", Description: "search recursively"},
	{Command: "df -h", Description: "disk usage"},
	{Command: "ps aux", Description: "running processes"},
}

func TestC08_Save(t *testing.T) {
	needWtf(t)
	rec := stat.For("C08")
	rec.Rule("histories of 1-6 `wtf save` / `wtf save-pipeline` runs of the built binary in an isolated HOME, starting from a missing, empty or populated notebook; command/description/category strings from an argv pool (YAML-significant text, multi-line text with leading/trailing blank lines and indentation, control characters, invalid UTF-8, empty strings, Unicode), repeated command strings (replace path), command strings copied from a main-database entry (the user's own version of a built-in command); flags first, then --, then the positionals. Oracle: after every reported success the notebook reloaded with the real loader equals an in-memory model list field by field (a pipeline saved without a description carries one that contains the given name) (replace-by-command-string, original positions kept); exit status 0/1 and no panic on every run; LoadDatabaseWithPersonal = main entries then notebook entries; a saved entry is found by `wtf search` for one of its words. Non-trivial = >=2 saves with a hostile string class or a replace.")
	rec.RequireShare("multiline", 0.15)
	rec.RequireShare("replace", 0.15)
	rapid.Check(t, func(t *rapid.T) {
		dir := mkdirWork("c08-")
		defer os.RemoveAll(dir)
		h, _ := proc.NewHome(dir)
		var model []savedEntry
		start := rapid.SampledFrom([]string{"missing", "empty", "populated", "populated", "symlinked", "symlinked-rel"}).Draw(t, "start")
		switch start {
		case "empty":
			os.MkdirAll(filepath.Dir(h.Notebook()), 0o755)
			os.WriteFile(h.Notebook(), nil, 0o644)
		case "populated", "symlinked", "symlinked-rel":
			os.MkdirAll(filepath.Dir(h.Notebook()), 0o755)
			// a hand-edited / imported notebook: entries may carry every field, incl. tags and a category
			pre := []database.Command{{Command: "old one", Description: "kept", Keywords: []string{"k"}, Tags: []string{"backup", "sync"}, Niche: "files"}, {Command: "old two", Description: "also kept", Platform: []string{"linux"}, Pipeline: true, Tags: []string{"x y"}}}
			os.WriteFile(h.Notebook(), gen.EmitYAML(pre), 0o644)
			model = []savedEntry{{Command: "old one", Description: "kept", Keywords: []string{"k"}, Tags: []string{"backup", "sync"}, Niche: "files"}, {Command: "old two", Description: "also kept", Platform: []string{"linux"}, Pipeline: true, Tags: []string{"x y"}}}
			if start == "symlinked-rel" {
				// the configured path is a RELATIVE symbolic link (a sibling file, as `ln -s` / stow make them);
				// such a link names the same file whatever directory wtf is started from (here: the work directory)
				nd := filepath.Dir(h.Notebook())
				os.Rename(h.Notebook(), filepath.Join(nd, "notebook.real.yml"))
				target := rapid.SampledFrom([]string{"notebook.real.yml", "./notebook.real.yml", "../cmd-finder/notebook.real.yml"}).Draw(t, "link-target")
				if err := os.Symlink(target, h.Notebook()); err != nil {
					t.Fatalf("harness: %v", err)
				}
			}
			if start == "symlinked" {
				// the notebook lives in a dotfiles checkout; the configured path is a symbolic link to it
				real := filepath.Join(dir, "dotfiles", "personal.yml")
				os.MkdirAll(filepath.Dir(real), 0o755)
				os.Rename(h.Notebook(), real)
				if err := os.Symlink(real, h.Notebook()); err != nil {
					t.Fatalf("harness: %v", err)
				}
			}
		}
		n := rapid.IntRange(1, 6).Draw(t, "saves")
		hostile, replaced, multiline := false, false, false
		mainCopy := false
		wsTwin := false
		var steps []string
		for s := 0; s < n; s++ {
			var cmdStr, ccls string
			if len(model) > 0 && rapid.IntRange(0, 3).Draw(t, "reuse") == 0 {
				cmdStr, ccls = model[rapid.IntRange(0, len(model)-1).Draw(t, "which")].Command, "reused"
			} else if len(model) > 0 && rapid.IntRange(0, 5).Draw(t, "ws-twin") == 0 {
				// a different command string that differs from a stored one only in surrounding blanks
				base := model[rapid.IntRange(0, len(model)-1).Draw(t, "twin-of")].Command
				cmdStr = rapid.SampledFrom([]string{base + " ", " " + base, "\t" + base, base + "  ", strings.TrimSpace(base)}).Draw(t, "twin")
				ccls = "ws-twin"
				if cmdStr == base || cmdStr == "" {
					cmdStr, ccls = base+" ", "ws-twin"
				}
				wsTwin = true
			} else if rapid.IntRange(0, 5).Draw(t, "main-copy") == 0 {
				// the user's own version of a built-in command: same command string as a main entry
				cmdStr, ccls = c08Main[rapid.IntRange(0, len(c08Main)-1).Draw(t, "which-main")].Command, "main-copy"
				mainCopy = true
			} else {
				cmdStr, ccls = argvString(t, "command")
			}
			desc, dcls := argvString(t, "description")
			if mainCopy && ccls == "main-copy" && rapid.Bool().Draw(t, "main-copy-description") {
				// ... with the built-in description kept word for word (only keywords, platforms or category are the user's own)
				for _, m := range c08Main {
					if m.Command == cmdStr {
						desc, dcls = m.Description, "plain"
					}
				}
			}
			if ccls != "plain" && ccls != "reused" && ccls != "main-copy" || dcls != "plain" {
				hostile = true
			}
			if ccls == "multiline" || dcls == "multiline" {
				multiline = true
			}
			kws := []string{}
			for i := rapid.IntRange(0, 3).Draw(t, "nkw"); i > 0; i-- {
				kws = append(kws, flagValue(t, "kw"))
			}
			if rapid.IntRange(0, 7).Draw(t, "comma-keyword") == 0 {
				kws = append(kws, flagValue(t, "kw-a")+rapid.SampledFrom([]string{",", ",", ", ", ", ", " , "}).Draw(t, "kw-comma")+flagValue(t, "kw-b")) // one keyword with a comma inside
			}
			plats := []string{}
			for i := rapid.IntRange(0, 2).Draw(t, "npl"); i > 0; i-- {
				plats = append(plats, flagValue(t, "pl"))
			}
			niche := ""
			if rapid.Bool().Draw(t, "has-cat") {
				niche, _ = argvString(t, "category")
			}
			var args []string
			var want savedEntry
			pipeline := rapid.IntRange(0, 2).Draw(t, "save-pipeline") == 0
			bare := rapid.IntRange(0, 7).Draw(t, "bare-entry") == 0
			if bare {
				// an entry that carries next to nothing: no keywords, platforms, category or pipeline flag,
				// and a command and / or description that is empty or blank - stored like any other
				kws, plats, niche, pipeline = []string{}, []string{}, "", false
				cmdStr = rapid.SampledFrom([]string{"", "", " ", "\t", "\n", "  ", cmdStr}).Draw(t, "bare-command")
				desc = rapid.SampledFrom([]string{"", "", " ", "\n", desc}).Draw(t, "bare-description")
				ccls, hostile = "bare", true
			}
			oneFieldResave, keepFlag := false, false
			if ccls == "reused" && rapid.Bool().Draw(t, "one-field-resave") {
				// save an existing entry again with exactly one field changed (or none)
				for _, m := range model {
					if m.Command == cmdStr && !m.AutoDesc && m.UserKeywords == nil {
						pipeline, oneFieldResave = false, true
						desc, kws, plats, niche = m.Description, append([]string{}, m.Keywords...), append([]string{}, m.Platform...), m.Niche
						cf := rapid.SampledFrom([]int{0, 1, 2, 3, 4, 5, 6, 6, 6, 6}).Draw(t, "changed-field")
						keepFlag = cf == 6
						switch cf {
						case 6:
							// the same keyword (or platform) text, divided differently: two values become ONE value
							// with a comma inside (passed CSV-quoted), or the other way round
							// (the dividing text: a bare comma, or a comma with blanks around it - the way lists are printed)
							sep := rapid.SampledFrom([]string{",", ", ", ", ", " , ", "; "}).Draw(t, "resplit-at")
							if len(kws) >= 2 {
								kws = []string{strings.Join(kws, sep)}
							} else if len(kws) == 1 && strings.Contains(kws[0], sep) {
								kws = strings.Split(kws[0], sep)
							} else if len(kws) == 1 && strings.Contains(kws[0], ",") {
								kws = strings.Split(kws[0], ",")
							} else if len(plats) >= 2 {
								plats = []string{strings.Join(plats, sep)}
							} else {
								kws = append(kws, "one"+sep+"two")
							}
						case 0:
							desc += " v2"
						case 1:
							kws = append(kws, "extra")
						case 2:
							niche += "x"
						case 3:
							plats = append(plats, "linux")
						case 4: // nothing but the pipeline flag (drawn below) may change
						}
						break
					}
				}
			}
			csv := func(v string) string { // a value with a comma travels CSV-quoted, as the flag's reader expects
				if strings.Contains(v, ",") {
					return `"` + v + `"`
				}
				return v
			}
			for _, k := range kws {
				args = append(args, "--keywords="+csv(k))
			}
			for _, p := range plats {
				args = append(args, "--platforms="+csv(p))
			}
			if niche != "" {
				args = append(args, "--category="+niche)
			}
			okLine := "Command saved successfully!"
			if pipeline {
				name, _ := argvString(t, "name")
				if rapid.IntRange(0, 3).Draw(t, "percent-name") == 0 {
					name = rapid.SampledFrom([]string{"100% cpu", "%s", "disk 95%", "%d items", "%v%v", "rate %", "%%", "%-5s|"}).Draw(t, "name-with-percent")
				}
				want = savedEntry{Command: cmdStr, Description: desc, Niche: niche, Platform: plats, Pipeline: true, UserKeywords: kws}
				if desc == "" || rapid.IntRange(0, 3).Draw(t, "auto-desc") == 0 {
					want.AutoDesc, want.AutoName = true, name
				} else {
					args = append(args, "--description="+desc)
				}
				args = append([]string{"save-pipeline"}, append(args, "--", name, cmdStr)...)
				okLine = "Pipeline saved successfully!"
			} else {
				want = savedEntry{Command: cmdStr, Description: desc, Niche: niche, Platform: plats, Keywords: kws}
				setFlag := rapid.IntRange(0, 3).Draw(t, "pipeline-flag") == 0
				if oneFieldResave {
					for _, m := range model {
						if m.Command == cmdStr {
							setFlag = m.Pipeline != (rapid.Bool().Draw(t, "flip-pipeline") && !keepFlag) // often the only difference
						}
					}
				}
				if bare {
					setFlag = false
				}
				if setFlag {
					args = append(args, rapid.SampledFrom([]string{"--pipeline", "--pipeline", "--pipeline=true", "--pipeline=1", "--pipeline=T"}).Draw(t, "true-spelling"))
					want.Pipeline = true
				} else if rapid.IntRange(0, 3).Draw(t, "explicit-false") == 0 {
					args = append(args, rapid.SampledFrom([]string{"--pipeline=false", "--pipeline=0", "--pipeline=F"}).Draw(t, "false-spelling")) // the flag named, the value false
				}
				args = append([]string{"save"}, append(args, "--", cmdStr, desc)...)
			}
			r := runWtf(h, dir, args)
			steps = append(steps, fmt.Sprintf("%+q", args))
			if r.Panicked() || r.Signaled || r.TimedOut || (r.ExitCode != 0 && r.ExitCode != 1) {
				t.Fatalf("wtf %+q crashed (exit %d):\n%s\n%s", args, r.ExitCode, clip(r.Stdout), clip(r.Stderr))
			}
			if !saidSaved(r.Stdout, okLine) {
				// a reported failure must leave the earlier entries intact
				if msg := compareNotebookIfAny(h.Notebook(), model); msg != "" {
					t.Fatalf("after a save that reported failure (%s): %s\n steps=%v", clip(r.Stdout), msg, steps)
				}
				continue
			}
			idx := -1
			for i := range model {
				if model[i].Command == want.Command {
					idx = i
					break
				}
			}
			if idx >= 0 {
				model[idx] = want
				replaced = true
			} else {
				model = append(model, want)
			}
			if msg := compareNotebook(h.Notebook(), model); msg != "" {
				data, _ := os.ReadFile(h.Notebook())
				t.Fatalf("after `wtf %+q` reported success: %s\n notebook file:\n%s\n steps=%v", args, msg, clip(string(data)), steps)
			}
		}
		// merge order and findability
		mainPath := filepath.Join(dir, "main.yml")
		os.WriteFile(mainPath, gen.EmitYAML(c08Main), 0o644)
		if _, err := os.Stat(h.Notebook()); err == nil {
			db, err := database.LoadDatabaseWithPersonal(mainPath, h.Notebook())
			if err != nil {
				t.Fatalf("main + notebook do not load together: %v", err)
			}
			if len(db.Commands) != len(c08Main)+len(model) {
				t.Fatalf("search database has %d entries, want %d main + %d notebook", len(db.Commands), len(c08Main), len(model))
			}
			for i := range c08Main {
				if db.Commands[i].Command != c08Main[i].Command {
					t.Fatalf("search database entry %d is %q, want main entry %q first", i, db.Commands[i].Command, c08Main[i].Command)
				}
			}
			for i := range model {
				if msg := matchSaved(db.Commands[len(c08Main)+i], model[i]); msg != "" {
					t.Fatalf("search database, notebook entry %d: %s", i, msg)
				}
			}
		}
		found := false
		for i := len(model) - 1; i >= 0 && !found; i-- {
			e := model[i]
			if !utf8.ValidString(e.Command) || !utf8.ValidString(e.Description) || e.AutoDesc {
				continue
			}
			toks := ref.Tokenize(e.Command + " " + e.Description + " " + strings.Join(e.Keywords, " "))
			if len(toks) == 0 {
				continue
			}
			tok := toks[rapid.IntRange(0, len(toks)-1).Draw(t, "tok")]
			r := runWtf(h, dir, []string{"search", "--all-platforms", "--limit", "100", "-d", mainPath, "--format", "json", "--no-color", "--", tok})
			items, err := parseJSONBlock(r.Stdout)
			if err != nil {
				t.Fatalf("searching for %q (a word of the saved command %+q) printed no result block: %v\n%s", tok, e.Command, err, clip(r.Stdout))
			}
			ok := false
			for _, it := range items {
				if it.Command == e.Command && it.Description == e.Description {
					ok = true
				}
			}
			if !ok {
				t.Fatalf("saved command %+q is not found by `wtf search %s`: %+v", e.Command, tok, items)
			}
			found = true
		}
		labels := []string{"start:" + start}
		if multiline {
			labels = append(labels, "multiline")
		}
		if replaced {
			labels = append(labels, "replace")
		}
		if found {
			labels = append(labels, "findability-checked")
		}
		if mainCopy {
			labels = append(labels, "same-command-as-main-entry")
		}
		if wsTwin {
			labels = append(labels, "whitespace-twin-command")
		}
		rec.Case((n >= 2 && hostile) || replaced, map[string]any{"start": start, "steps": steps, "entries": len(model)}, labels...)
	})
}

func compareNotebookIfAny(path string, model []savedEntry) string {
	if _, err := os.Stat(path); err != nil {
		if len(model) == 0 {
			return ""
		}
		return "the notebook file disappeared"
	}
	data, _ := os.ReadFile(path)
	if len(data) == 0 && len(model) == 0 {
		return ""
	}
	return compareNotebook(path, model)
}
