package props

import (
	"encoding/json"
	"fmt"
	"os"
	"reflect"
	"regexp"
	"strings"
	"testing"

	"github.com/Vedant9500/WTF/internal/database"
	"github.com/Vedant9500/WTF/internal/nlp"
	"github.com/Vedant9500/WTF/verifharness/gen"
	"github.com/Vedant9500/WTF/verifharness/proc"
	"github.com/Vedant9500/WTF/verifharness/ref"
	"github.com/Vedant9500/WTF/verifharness/stat"
	"pgregory.net/rapid"
)

// C06 — NLP enhancement never drops what the user typed.

var c06NLPWords = []string{"find", "search", "show", "list", "create", "make", "delete", "remove", "compress", "extract", "install", "run", "copy", "move", "kill", "edit",
	"file", "files", "directory", "folder", "process", "network", "ip", "port", "repo", "commit", "permission", "contents", "zip", "tar",
	"the", "to", "a", "in", "how", "go", "up", "see", "look", "without opening", "manage", "windows", "view", "read", "text", "config", "running"}

// further words the hint collectors look for (actions, targets and keywords of internal/nlp)
var c06ClueWords = []string{"change", "modify", "open", "editor", "archive", "archives", "download", "upload", "log", "logs", "disk", "space", "usage", "replace", "remote", "package", "packages", "server", "unpack", "untar", "unzip", "decompress", "backup", "rename", "duplicate", "locate", "display", "print", "terminate", "stop", "start", "connection", "connections", "interface", "storage", "analyze", "follow", "tail", "sort", "cut", "text", "string", "strings", "user", "users", "rights", "transfer", "sync", "clone", "inside", "new", "empty", "all", "old"}

var c06HintTools = []string{"tar", "zip", "gzip", "unzip", "7z", "mkdir", "rmdir", "find", "grep", "locate", "ls", "rm", "cp", "mv", "cat", "less", "ps", "kill", "top", "chmod", "chown", "curl", "wget", "df", "du", "touch", "ip", "ifconfig", "ping", "ssh", "apt", "brew", "sed", "awk", "tail", "head"}

// c06ForceKind, when set, overrides the drawn query kind (set and cleared around one call).
var c06ForceKind string

func c06Query(t *rapid.T, cmds []database.Command) (string, string) {
	toks := gen.Tokens(cmds)
	fromDB := rapid.SampledFrom(append([]string{"zzqx"}, toks...))
	word := rapid.OneOf(fromDB, fromDB, rapid.SampledFrom(c06NLPWords), gen.Word(), gen.UWord(false))
	kind := rapid.SampledFrom([]string{"short", "short", "medium", "long", "punct", "near-cap", "near-cap", "long-built", "unknown-head", "unknown-head"}).Draw(t, "q-kind")
	if c06ForceKind != "" {
		kind = c06ForceKind
	}
	switch kind {
	case "unknown-head":
		// 7-10 distinct content words of which the first two to four occur nowhere in the database
		// (names, typos, jargon), followed by action / target words and the database's own words -
		// the commonest of them last: whatever budget the unknown words do or do not use up, every
		// later word of the user still counts
		head := rapid.SliceOfNDistinct(rapid.StringMatching(`zq[b-z]{3,6}`), 2, 4, func(s string) string { return s }).Draw(t, "unknown-words")
		mid := rapid.SliceOfNDistinct(rapid.SampledFrom([]string{"compress", "show", "docker", "delete", "find", "folder", "download", "process", "extract", "install", "copy", "logs", "running", "edit", "search", "network"}), 1, 3, func(s string) string { return s }).Draw(t, "action-target-words")
		tail := rapid.SliceOfNDistinct(fromDB, 2, 5, func(s string) string { return strings.ToLower(s) }).Draw(t, "db-words")
		ws := append(append(head, mid...), tail...)
		if len(ws) > 10 {
			ws = ws[:10]
		}
		return strings.Join(ws, " "), kind
	case "long-built":
		// more than ten distinct content words: four database words first, then action / target words
		// the language stage likes, then more database and unknown words
		first := rapid.SliceOfNDistinct(fromDB, 4, 4, func(s string) string { return strings.ToLower(s) }).Draw(t, "first-four")
		mid := rapid.SliceOfNDistinct(rapid.SampledFrom([]string{"copy", "file", "list", "directory", "delete", "find", "folder", "compress", "process", "show"}), 2, 4, func(s string) string { return s }).Draw(t, "action-target-words")
		rest := rapid.SliceOfNDistinct(rapid.OneOf(fromDB, rapid.StringMatching(`[b-z]{4,7}`)), 6, 9, func(s string) string { return strings.ToLower(s) }).Draw(t, "rest")
		return strings.Join(append(append(first, mid...), rest...), " "), kind
	case "near-cap":
		// 8-10 distinct content words: with the NLP additions the term list sits at the
		// pruning cap, which is where a user's word could be crowded out
		pool := rapid.OneOf(fromDB, fromDB, fromDB, rapid.SampledFrom([]string{"compress", "folder", "create", "directory", "find", "files", "delete", "file", "show", "process", "download", "extract", "archive", "install", "network", "permission", "search", "text", "disk", "usage"}))
		ws := rapid.SliceOfNDistinct(pool, 8, 10, func(s string) string { return strings.ToLower(s) }).Draw(t, "near-cap-words")
		return strings.Join(ws, " "), kind
	case "short":
		return gen.TextOf(word, 1, 4).Draw(t, "q"), kind
	case "medium":
		return gen.TextOf(word, 5, 10).Draw(t, "q"), kind
	case "long":
		return gen.TextOf(word, 11, 18).Draw(t, "q"), kind
	default:
		return gen.TextOf(word, 1, 5).Draw(t, "q") + rapid.SampledFrom([]string{"?", "!", " ...", " (now)", "'s", "/*"}).Draw(t, "p"), kind
	}
}

func TestC06_Retain(t *testing.T) {
	rec := stat.For("C06")
	rec.Rule("databases x queries mixing action, target, stop, synonym and unknown words, punctuation, Unicode, 0-18 content words; fuzzy off, Limit >= N, term cap 0 or >= 10, any platform/pipeline filter (same in both runs). Oracle: (a) <=10 content words: results(NLP off) subset of results(NLP on); (b) any length: results(t alone, NLP off) subset of results(q, NLP on) and of results(q, NLP off) for each of the first four content words t. Non-trivial = NLP-on set strictly larger than NLP-off, or the query has an action/target word and an unknown word.")
	rec.RequireShare("long-query", 0.015)
	rec.RequireShare("nlp-adds", 0.01)
	p := nlp.NewQueryProcessor()
	rapid.Check(t, func(t *rapid.T) {
		cmds, cls := gen.DB(t, gen.CmdOpts{Platforms: true, Unicode: rapid.IntRange(0, 3).Draw(t, "u") == 0, Sized: true, Long: true}, []int{0, 1, 3, 10, 1, 1})
		if len(cmds) >= 4 && rapid.IntRange(0, 3).Draw(t, "common-word") == 0 {
			gen.Ubiquitous(t, cmds) // a word in nearly every entry: the least informative term there is
		}
		if rapid.Bool().Draw(t, "hint-pack") {
			// commands named after the tools the NLP stage likes to suggest, so its hints are indexed terms
			for _, h := range rapid.SliceOfNDistinct(rapid.SampledFrom(c06HintTools), 3, 10, func(s string) string { return s }).Draw(t, "hints") {
				cmds = append(cmds, database.Command{Command: h + " " + gen.Word().Draw(t, "hint-arg"), Description: h})
			}
		}
		own := cmds // the database's own entries: what the user's later words are drawn from
		fullPack := rapid.IntRange(0, 5).Draw(t, "full-language-pack") == 0
		if fullPack {
			// every tool the language stage may hint at and every word it may add is an indexed term, once
			for _, h := range c06HintTools {
				cmds = append(cmds, database.Command{Command: h + " tool", Description: "about " + h})
			}
			cmds = append(cmds, gen.LanguagePack()...)
		}
		db := gen.Load(t, cmds)
		q, kind := c06Query(t, own)
		if fullPack && rapid.IntRange(0, 3).Draw(t, "unknown-head-query") > 0 {
			c06ForceKind = "unknown-head"
			q, kind = c06Query(t, own)
			c06ForceKind = ""
		}
		if rapid.IntRange(0, 3).Draw(t, "respell") == 0 {
			// the user's spelling may use any case form, incl. U+212A for k: both searches must cope
			q, _ = respell(t, q)
			kind += "+respelled"
		}
		f := false
		opt := gen.Options(t, gen.OptSpec{N: len(cmds), BigLimit: true, FixFuzzy: &f, FixNLP: &f})
		// the all-words clause is stated for the default pruning (ten terms); the first-four clause for every cap
		defaultPruning := opt.TopTermsCap == 0 || opt.TopTermsCap >= 10
		on := opt
		on.UseNLP = true
		offSet := idxSet(rank(db, db.SearchUniversal(q, opt)))
		onSet := idxSet(rank(db, db.SearchUniversal(q, on)))
		terms := ref.Tokenize(q)
		if len(terms) <= 10 && defaultPruning {
			for i := range offSet {
				if !onSet[i] {
					t.Fatalf("entry #%d (%q) is returned with NLP off but lost with NLP on; query=%q content words=%v options=%v\n db=%v", i, cmds[i].Command, q, terms, optBrief(opt), gen.BriefDB(cmds, 12))
				}
			}
		}
		for k, term := range terms {
			if k >= 4 {
				break
			}
			single := idxSet(rank(db, db.SearchUniversal(term, opt)))
			for i := range single {
				if !onSet[i] {
					t.Fatalf("entry #%d (%q) matches content word %d %q of the query but is missing with NLP on; query=%q content words=%v options=%v\n db=%v", i, cmds[i].Command, k+1, term, q, terms, optBrief(opt), gen.BriefDB(cmds, 12))
				}
				if !offSet[i] {
					t.Fatalf("entry #%d (%q) matches content word %d %q of the query but is missing with NLP off; query=%q content words=%v options=%v\n db=%v", i, cmds[i].Command, k+1, term, q, terms, optBrief(opt), gen.BriefDB(cmds, 12))
				}
			}
		}
		pq := p.ProcessQuery(q)
		hasAT := len(pq.Actions)+len(pq.Targets) > 0
		hasUnknown := false
		for _, k := range pq.Keywords {
			if !ref.IsStop(k) {
				hasUnknown = true
			}
		}
		labels := []string{"db:" + string(cls), "q:" + kind}
		if len(terms) > 10 {
			labels = append(labels, "long-query")
		}
		if len(onSet) > len(offSet) {
			labels = append(labels, "nlp-adds")
		}
		rec.Case(len(onSet) > len(offSet) || (hasAT && hasUnknown), map[string]any{"db": gen.BriefDB(cmds, 5), "query": q, "content_words": terms, "options": optBrief(opt), "off": sortedIdx(offSet), "on": sortedIdx(onSet)}, labels...)
	})
}

var c06NotWord = regexp.MustCompile(`[^\w\s\-.]`)

func noDup(xs []string) bool { return ref.Distinct(xs) }

func hasPrefix(xs, prefix []string) bool {
	if len(prefix) > len(xs) {
		return false
	}
	for i := range prefix {
		if xs[i] != prefix[i] {
			return false
		}
	}
	return true
}

func isSubsequence(sub, xs []string) bool {
	i := 0
	for _, x := range xs {
		if i < len(sub) && x == sub[i] {
			i++
		}
	}
	return i == len(sub)
}

// c06AnalysisString renders an analysis and its expanded term list for comparison across processes.
func c06AnalysisString(a *nlp.ProcessedQuery) string {
	return fmt.Sprintf("%+q | %+q", fmt.Sprintf("%+v", *a), a.GetEnhancedKeywords())
}

func init() {
	// child: analyse the texts of a JSON file in reverse order, print the analyses in file order
	proc.RegisterHelper("c06analyse", func(args []string) int {
		if len(args) != 1 {
			return 96
		}
		data, err := os.ReadFile(args[0])
		var texts []string
		if err != nil || json.Unmarshal(data, &texts) != nil {
			return 96
		}
		out := make([]string, len(texts))
		p := nlp.NewQueryProcessor()
		for i := len(texts) - 1; i >= 0; i-- {
			out[i] = c06AnalysisString(p.ProcessQuery(texts[i]))
		}
		enc, _ := json.Marshal(out)
		fmt.Println(string(enc))
		return 0
	})
}

// c06FlushBatch compares this process's analyses of texts with those of a fresh child process.
func c06FlushBatch(history, texts, here []string, analysed int) string {
	f := gen.TempPath(".json")
	defer os.Remove(f)
	enc, _ := json.Marshal(texts)
	if err := os.WriteFile(f, enc, 0o644); err != nil {
		return "harness: " + err.Error()
	}
	r := proc.Run(proc.Cmd{Helper: "c06analyse", Args: []string{f}, FSize: -1})
	var fresh []string
	if r.ExitCode != 0 || r.TimedOut || json.Unmarshal([]byte(r.Stdout), &fresh) != nil || len(fresh) != len(texts) {
		return fmt.Sprintf("harness: analysis helper failed: exit %d, %d bytes of output", r.ExitCode, len(r.Stdout))
	}
	for i := range texts {
		if fresh[i] != here[i] {
			saveCase("C06", "analysis-history", map[string]any{"test": "TestC06_Analysis", "history": history, "batch": texts, "differs_at": i, "here": here[i], "fresh_process_reverse_order": fresh[i]})
			return fmt.Sprintf("analysis of %q depends on what was analysed before: this process (text %d of the batch, after about %d other analyses) gives\n  %s\na fresh process that meets the batch in reverse order gives\n  %s", texts[i], i, analysed, here[i], fresh[i])
		}
	}
	return ""
}

func TestC06_Analysis(t *testing.T) {
	rec := stat.For("C06")
	rec.Rule("analysis invariants on generated query strings: ProcessQuery twice (same and fresh processor) deep-equal; GetEnhancedKeywords has no duplicates and starts with the extracted keywords; the user's own keyword-bearing words, in first-occurrence order, form a subsequence of the extracted keywords.")
	p := nlp.NewQueryProcessor()
	analysed := 0
	// every text analysed here is analysed again by a fresh child process, 3000 at a time and in
	// REVERSE order: whatever trace one analysis leaves behind for a later one (in this process, which
	// has analysed thousands of texts, or in the child, which meets them the other way round) shows
	var history, batchTexts, batchHere []string
	var rc struct{ History, Batch []string }
	if replayCase("C06", "analysis-history", &rc) {
		// replay of a stored history: the same texts in the same order in this process, the batch in reverse in a child
		for _, q := range rc.History {
			p.ProcessQuery(q).GetEnhancedKeywords()
		}
		for _, q := range rc.Batch {
			batchHere = append(batchHere, c06AnalysisString(p.ProcessQuery(q)))
		}
		if msg := c06FlushBatch(rc.History, rc.Batch, batchHere, len(rc.History)+len(rc.Batch)); msg != "" {
			t.Fatalf("%s", msg)
		}
		return
	}
	defer func() {
		if len(batchTexts) > 0 && !t.Failed() {
			if msg := c06FlushBatch(history, batchTexts, batchHere, analysed); msg != "" {
				t.Errorf("%s", msg)
			}
		}
	}()
	rapid.Check(t, func(t *rapid.T) {
		word := rapid.OneOf(rapid.SampledFrom(c06NLPWords), rapid.SampledFrom(c06NLPWords), gen.Word(), gen.UWord(true))
		q := gen.TextOf(word, 0, 14).Draw(t, "q")
		if rapid.IntRange(0, 3).Draw(t, "short-clue") == 0 {
			// two to four words, nearly all of them words the hint tables react to: the texts in which
			// exactly one or two hint groups fire
			clue := rapid.OneOf(rapid.SampledFrom(c06NLPWords), rapid.SampledFrom(c06NLPWords), rapid.SampledFrom(c06ClueWords), rapid.SampledFrom(c06ClueWords), rapid.SampledFrom(gen.NLPWords))
			q = strings.Join(rapid.SliceOfN(clue, 1, 4).Draw(t, "q-clue"), " ")
		}
		if rapid.IntRange(0, 7).Draw(t, "language-words") == 0 {
			// short texts made only of words the language stage reacts to (and their inflected forms)
			q = gen.TextOf(rapid.OneOf(rapid.SampledFrom(gen.NLPWords), rapid.SampledFrom(gen.NLPWords), gen.Inflected()), 2, 7).Draw(t, "q-lang")
		}
		if rapid.IntRange(0, 5).Draw(t, "many-words") == 0 {
			// a pasted sentence or two: dozens of distinct words, every one of them the user's own
			many := rapid.OneOf(rapid.SampledFrom(gen.NLPWords), rapid.SampledFrom(gen.NLPWords), rapid.StringMatching(`[a-z]{3,9}`), rapid.SampledFrom(c06NLPWords))
			q = strings.Join(rapid.SliceOfN(many, 15, 70).Draw(t, "q-many"), " ")
		}
		if rapid.IntRange(0, 5).Draw(t, "arbitrary") == 0 {
			q = rapid.String().Draw(t, "qa")
		}
		a := p.ProcessQuery(q)
		b := p.ProcessQuery(q)
		c := nlp.NewQueryProcessor().ProcessQuery(q)
		if !reflect.DeepEqual(a, b) || !reflect.DeepEqual(a, c) {
			t.Fatalf("analysing %q twice gives different analyses:\n%+v\n%+v\n%+v", q, a, b, c)
		}
		analysed++
		if !strings.ContainsRune(q, 0) {
			batchTexts, batchHere = append(batchTexts, q), append(batchHere, c06AnalysisString(a))
		}
		// eight more short clue texts per case, analysed only for the history comparison below
		clueWord := rapid.OneOf(rapid.SampledFrom(c06NLPWords), rapid.SampledFrom(c06ClueWords))
		for _, x := range rapid.SliceOfN(rapid.SliceOfN(clueWord, 2, 4), 8, 8).Draw(t, "clue-texts") {
			xt := strings.Join(x, " ")
			batchTexts, batchHere = append(batchTexts, xt), append(batchHere, c06AnalysisString(p.ProcessQuery(xt)))
			analysed++
		}
		if len(batchTexts) >= 3000 {
			if msg := c06FlushBatch(history, batchTexts, batchHere, analysed); msg != "" {
				t.Fatalf("%s", msg)
			}
			rec.Label("fresh-process-batches")
			if len(history) < 300000 { // (a stored case keeps at most the first 300 000 texts of the process)
				history = append(history, batchTexts...)
			}
			batchTexts, batchHere = nil, nil
		}
		enh := a.GetEnhancedKeywords()
		if e2 := c.GetEnhancedKeywords(); !reflect.DeepEqual(enh, e2) {
			t.Fatalf("expanded terms differ between two analyses of %q: %v vs %v", q, enh, e2)
		}
		if !noDup(enh) {
			t.Fatalf("expanded term list of %q has duplicates: %v", q, enh)
		}
		if !noDup(a.Keywords) || !noDup(a.Actions) || !noDup(a.Targets) {
			t.Fatalf("analysis of %q has duplicates: %+v", q, a)
		}
		if added := enh[min(len(a.Keywords), len(enh)):]; len(added) > 0 && rapid.IntRange(0, 2).Draw(t, "feed-back") != 0 {
			// feed-back: the user types some of the very terms the expansion would add (the hinted tool's
			// name, the action word, the target word) after, before or between the own words; whichever rule
			// adds them must still not add them a second time, and the own words still come first
			pick := rapid.SliceOfNDistinct(rapid.IntRange(0, len(added)-1), 1, min(len(added), 4), rapid.ID[int]).Draw(t, "fed-back")
			var fed []string
			for _, i := range pick {
				fed = append(fed, added[i])
			}
			var q2 string
			switch rapid.IntRange(0, 2).Draw(t, "fed-where") {
			case 0:
				q2 = q + " " + strings.Join(fed, " ")
			case 1:
				q2 = strings.Join(fed, " ") + " " + q
			default:
				ws := strings.Fields(q)
				k := rapid.IntRange(0, len(ws)).Draw(t, "fed-at")
				q2 = strings.Join(append(append(append([]string{}, ws[:k]...), fed...), ws[k:]...), " ")
			}
			a2 := p.ProcessQuery(q2)
			enh2 := a2.GetEnhancedKeywords()
			if !noDup(enh2) {
				t.Fatalf("expanded term list of %q (the text %q plus terms its own expansion adds) has duplicates: %v", q2, q, enh2)
			}
			if !hasPrefix(enh2, a2.Keywords) {
				t.Fatalf("expanded term list of %q does not begin with the extracted keywords: keywords=%v expanded=%v", q2, a2.Keywords, enh2)
			}
			if !reflect.DeepEqual(enh2, nlp.NewQueryProcessor().ProcessQuery(q2).GetEnhancedKeywords()) {
				t.Fatalf("expanded terms differ between two analyses of %q", q2)
			}
			rec.Label("fed-back-expansion-terms")
		}
		if !hasPrefix(enh, a.Keywords) {
			t.Fatalf("expanded term list of %q does not begin with the extracted keywords: keywords=%v expanded=%v", q, a.Keywords, enh)
		}
		// the user's own keyword-bearing words, first-occurrence order
		var own []string
		seen, introduced := map[string]bool{}, map[string]bool{}
		// the user's words: lower-cased text with everything but letters, digits, '_', '-', '.'
		// and blanks turned into separators (derived from the statement, not from pq.Cleaned)
		for _, w := range strings.Fields(c06NotWord.ReplaceAllString(strings.ToLower(q), " ")) {
			if seen[w] {
				continue
			}
			seen[w] = true
			alone := p.ProcessQuery(w)
			for _, k := range alone.Keywords {
				if k == w && !introduced[w] {
					own = append(own, w)
					break
				}
			}
			// a word that an earlier word already brought along (its synonym) takes that earlier
			// place in the de-duplicated list: its own position says nothing about the user's order
			for _, k := range alone.Keywords {
				introduced[k] = true
			}
		}
		if !isSubsequence(own, a.Keywords) {
			t.Fatalf("the user's keyword words %v do not appear in that order in the extracted keywords %v (query %q)", own, a.Keywords, q)
		}
		nt := len(own) >= 2 && len(enh) > len(a.Keywords)
		rec.Case(nt, map[string]any{"analysis_of": q, "keywords": a.Keywords, "expanded": enh, "intent": a.Intent}, "analysis", fmt.Sprintf("keywords>24:%v", len(a.Keywords) > 24))
	})
}
