package props

import (
	"fmt"
	"os"
	"path/filepath"
	"reflect"
	"strings"
	"testing"
	"unicode"

	"github.com/Vedant9500/WTF/internal/database"
	"github.com/Vedant9500/WTF/verifharness/gen"
	"github.com/Vedant9500/WTF/verifharness/proc"
	"github.com/Vedant9500/WTF/verifharness/stat"
	"pgregory.net/rapid"
)

// C20 — letter case and spare whitespace in the query never change the answer.

// respell replaces runes by members of their simple-fold orbit when the orbit is
// case-regular (all members have the same lower-case form).
func respell(t *rapid.T, q string) (string, bool) {
	rs := []rune(q)
	nonASCII := false
	// mode 0: every rune may change; 1: sparse - about one rune in four (a spelling with a single
	// odd letter and no capital anywhere else); 2: only non-ASCII runes change (title-case digraphs,
	// Roman numerals, Greek title-case letters: cased, but not in category Lu)
	mode := rapid.IntRange(0, 2).Draw(t, "respell-mode")
	for i, r := range rs {
		if !gen.OrbitRegular(r) {
			continue
		}
		if mode == 1 && rapid.IntRange(0, 3).Draw(t, "respell-here") != 0 {
			continue
		}
		if mode == 2 && r < 128 {
			continue
		}
		orbit := []rune{r}
		for x := unicode.SimpleFold(r); x != r; x = unicode.SimpleFold(x) {
			orbit = append(orbit, x)
		}
		if len(orbit) == 1 {
			continue
		}
		pick := orbit[rapid.IntRange(0, len(orbit)-1).Draw(t, "fold")]
		if pick != r && (pick >= 128 || r >= 128) {
			nonASCII = true
		}
		rs[i] = pick
	}
	return string(rs), nonASCII
}

func TestC20_Engine(t *testing.T) {
	rec := stat.For("C20")
	rec.Rule("databases x queries x a re-spelling of the query in which each rune may be replaced by any member of its unicode.SimpleFold orbit when that orbit is case-regular (computed; excludes U+017F-style orbits, admits U+212A), all option combinations. Oracle: identical ranked (index, score bits) lists from SearchUniversal, from the cached layer (first spelling fills the cache, second must be answered identically), from SearchWithPipelineOptions, and identical GetSuggestions. Non-trivial = the re-spelling differs from the original and the answer is non-empty.")
	rec.RequireShare("fallback-path", 0.03)
	rec.RequireShare("non-ascii-respelling", 0.08)
	rapid.Check(t, func(t *rapid.T) {
		cmds, cls := gen.DB(t, gen.CmdOpts{Platforms: true, Unicode: rapid.IntRange(0, 2).Draw(t, "u") == 0, Sized: true, Long: true}, []int{0, 1, 3, 10, 1})
		db := gen.Load(t, cmds)
		withEmb := false
		if len(cmds) > 0 && len(cmds) <= 80 && rapid.IntRange(0, 2).Draw(t, "embeddings") == 0 {
			database.VerifSetEmbeddingIndex(db, drawEmbeddingIndex(t, cmds)) // the semantic stage reads the query too
			withEmb = true
		}
		q, qc := gen.Query(t, cmds, []gen.QueryClass{"vocab", "vocab", "nlp", "nlp", "typo", "typo", "typo", "typo", "fragment", "fragment", "one", "mixed", "unicode", "long"})
		warmUp(t, db, cmds)
		if rapid.IntRange(0, 9).Draw(t, "terse-alias") == 0 {
			// a notebook alias of one to three letters with no description, asked for by its name; the
			// letters are ones whose case forms differ in UTF-8 length (k / U+212A, å / U+212B, ß / U+1E9E, ...)
			alias := rapid.StringOfN(rapid.RuneFrom([]rune{'k', 'å', 'ß', 'ⱥ', 'ⱦ', 's', 'a', 'ω', 'i'}), 1, 3, -1).Draw(t, "alias")
			cmds = append(cmds, database.Command{Command: alias})
			db = gen.Load(t, cmds)
			withEmb = false
			q, qc = alias, "terse-alias"
		}
		if len(cmds) > 0 && rapid.IntRange(0, 7).Draw(t, "cased-non-capital") == 0 {
			// a word of letters that have case forms outside category Lu (title-case digraphs, Roman
			// numerals, Greek title-case letters) in one entry next to an ordinary word of the query:
			// every stage that reads the query (index, re-ranker, word tables) must fold them alike
			special := rapid.StringOfN(rapid.RuneFrom([]rune{'ǆ', 'ǉ', 'ǌ', 'ǳ', 'ⅻ', 'ⅰ', 'ⅿ', 'ᾀ', 'ᾐ', 'e', 'p', 'o'}), 2, 4, -1).Draw(t, "special-word")
			i := rapid.IntRange(0, len(cmds)-1).Draw(t, "special-in")
			cp := cmds[i]
			cp.Description = strings.TrimSpace(cp.Description + " " + special + " pockets")
			cmds = append(append([]database.Command{}, cmds...), cp)
			db = gen.Load(t, cmds)
			withEmb = false
			fs := strings.Fields(strings.ToLower(cp.Command + " " + cp.Description))
			q = fs[rapid.IntRange(0, len(fs)-1).Draw(t, "special-with")] + " " + special
			qc = "cased-non-capital"
		}
		if rapid.IntRange(0, 7).Draw(t, "hostile-k") == 0 {
			q += " kill Kelvin ok"
		}
		if len(cmds) > 0 && rapid.IntRange(0, 7).Draw(t, "quoted-phrase") == 0 {
			// part of the query in quotation marks (double, single or back quotes): words of one entry, as they stand there
			c := cmds[rapid.IntRange(0, len(cmds)-1).Draw(t, "phrase-of")]
			fs := strings.Fields(strings.ToLower(c.Command + " " + c.Description))
			if len(fs) > 0 {
				i := rapid.IntRange(0, len(fs)-1).Draw(t, "phrase-at")
				phrase := strings.Join(fs[i:min(len(fs), i+rapid.IntRange(1, 3).Draw(t, "phrase-len"))], " ")
				qm := rapid.SampledFrom([]string{`"`, `"`, `'`, "`"}).Draw(t, "quote-mark")
				q = rapid.SampledFrom([]string{q + " " + qm + phrase + qm, qm + phrase + qm + " " + q, qm + phrase + qm}).Draw(t, "quoted-query")
				qc = "quoted-phrase"
			}
		}
		if rapid.IntRange(0, 5).Draw(t, "context-clue") == 0 {
			// phrases the NLP stage looks for as substrings of the raw query text
			q = rapid.SampledFrom([]string{"preview", "reading", "looking", "overview", "outlook", "thread", "seeking", "displayed", "show", "see"}).Draw(t, "view-word") + " " + q + " " +
				rapid.SampledFrom([]string{"without opening", "without editing", "without opening it", "not opening"}).Draw(t, "clue")
			qc = "context-clue"
		}
		q2, nonASCII := respell(t, q)
		opt := gen.Options(t, gen.OptSpec{N: len(cmds)})
		a := rank(db, db.SearchUniversal(q, opt))
		b := rank(db, db.SearchUniversal(q2, opt))
		ctx := func() string {
			return fmt.Sprintf("q1=%q q2=%q (%+q) options=%v\n db=%v", q, q2, q2, optBrief(opt), gen.BriefDB(cmds, 12))
		}
		if !rankEq(a, b) {
			t.Fatalf("case re-spelling changed the answer:\n q1 -> %s\n q2 -> %s\n%s", rankStr(a), rankStr(b), ctx())
		}
		cdb := database.NewCachedDatabase(db)
		c1 := rank(db, cdb.SearchWithOptionsAndCache(q, opt))
		c2 := rank(db, cdb.SearchWithOptionsAndCache(q2, opt))
		if !rankEq(a, c1) || !rankEq(a, c2) {
			t.Fatalf("cached layer answers case variants differently:\n uncached %s\n first   %s\n second  %s\n%s", rankStr(a), rankStr(c1), rankStr(c2), ctx())
		}
		p1 := rank(db, db.SearchWithPipelineOptions(q, opt))
		p2 := rank(db, db.SearchWithPipelineOptions(q2, opt))
		if !rankEq(p1, p2) {
			t.Fatalf("pipeline search answers case variants differently:\n q1 -> %s\n q2 -> %s\n%s", rankStr(p1), rankStr(p2), ctx())
		}
		s1, s2 := db.GetSuggestions(q, 5), db.GetSuggestions(q2, 5)
		if !reflect.DeepEqual(s1, s2) {
			t.Fatalf("suggestions differ for case variants: %v vs %v\n%s", s1, s2, ctx())
		}
		labels := []string{"db:" + string(cls), "q:" + string(qc)}
		if withEmb {
			labels = append(labels, "embedding-index-attached")
		}
		off := opt
		off.UseFuzzy = false
		if opt.UseFuzzy && len(a) > 0 && len(db.SearchUniversal(q, off)) == 0 {
			labels = append(labels, "fallback-path")
		}
		if nonASCII {
			labels = append(labels, "non-ascii-respelling")
		}
		if opt.UseNLP {
			labels = append(labels, "nlp")
		}
		rec.Case(q != q2 && len(a) > 0, map[string]any{"db": gen.BriefDB(cmds, 5), "q1": q, "q2": q2, "options": optBrief(opt), "answer": rankStr(a)}, labels...)
	})
}

func TestC20_CLI(t *testing.T) {
	needWtf(t)
	rec := stat.For("C20")
	rapid.Check(t, func(t *rapid.T) {
		cmds, _ := gen.DB(t, gen.CmdOpts{}, []int{0, 1, 3, 10, 0})
		dir := mkdirWork("c20cli-")
		defer os.RemoveAll(dir)
		dbp := filepath.Join(dir, "db.yml")
		// every entry belongs to another system and the filter is on: the ordinary search and its typo
		// fallback find nothing, and the last-resort recovery search answers from the whole query text
		filtered := len(cmds) > 0 && rapid.IntRange(0, 4).Draw(t, "all-entries-filtered-out") == 0
		if filtered {
			for i := range cmds {
				cmds[i].Platform = []string{"windows"}
			}
		}
		os.WriteFile(dbp, gen.EmitYAML(cmds), 0o644)
		toks := gen.Tokens(cmds)
		if len(toks) == 0 {
			toks = []string{"alpha"}
		}
		words := rapid.SliceOfN(rapid.OneOf(rapid.SampledFrom(toks), rapid.SampledFrom([]string{"find", "show", "files", "kill", "how", "to"})), 1, 4).Draw(t, "words")
		for i, w := range words {
			words[i] = strings.Map(func(r rune) rune {
				if r < 0x21 || r == 0x7f || strings.ContainsRune("<>|&;$", r) {
					return -1
				}
				return r
			}, w)
			if words[i] == "" {
				words[i] = "alpha"
			}
		}
		if rapid.Bool().Draw(t, "typo") {
			words[0] = gen.Typo(t, words[0])
		}
		if rapid.IntRange(0, 3).Draw(t, "recovery-query") == 0 {
			// nothing matches lexically or as a typo: only the last-resort recovery search answers
			w := rapid.SampledFrom(toks).Draw(t, "frag-word")
			frag := w[:max(2, len(w)-1)]
			if rapid.Bool().Draw(t, "frag-first") {
				words = []string{frag, "zzqxj"}
			} else {
				words = []string{"zzqxj", frag}
			}
		}
		if len(cmds) > 0 && rapid.IntRange(0, 2).Draw(t, "phrase-typo") == 0 {
			// two neighbouring words of one entry, each with a letter dropped: nothing matches
			// lexically, and the typo fallback matches the query - blanks included - character by character
			c := cmds[rapid.IntRange(0, len(cmds)-1).Draw(t, "phrase-of")]
			var fs []string
			for _, f := range strings.Fields(c.Command + " " + c.Description) {
				ok := len(f) >= 3
				for _, r := range f {
					if !(r >= 'a' && r <= 'z' || r >= 'A' && r <= 'Z' || r >= '0' && r <= '9') {
						ok = false
					}
				}
				if ok {
					fs = append(fs, f)
				} else {
					fs = append(fs, "")
				}
			}
			for i := 0; i+1 < len(fs); i++ {
				if fs[i] != "" && fs[i+1] != "" {
					d1 := rapid.IntRange(0, len(fs[i])-1).Draw(t, "drop1")
					d2 := rapid.IntRange(0, len(fs[i+1])-1).Draw(t, "drop2")
					words = []string{fs[i][:d1] + fs[i][d1+1:], fs[i+1][:d2] + fs[i+1][d2+1:]}
					break
				}
			}
		}
		if filtered {
			// two neighbouring words of one command, spelt as they are
			c := cmds[rapid.IntRange(0, len(cmds)-1).Draw(t, "words-of")]
			fs := strings.Fields(c.Command)
			ok := func(f string) bool {
				for _, r := range f {
					if !(r >= 'a' && r <= 'z' || r >= 'A' && r <= 'Z' || r >= '0' && r <= '9') {
						return false
					}
				}
				return f != ""
			}
			for i := 0; i+1 < len(fs); i++ {
				if ok(fs[i]) && ok(fs[i+1]) {
					words = []string{fs[i], fs[i+1]}
					break
				}
			}
		}
		if rapid.IntRange(0, 4).Draw(t, "quoted-whole") == 0 {
			// the whole query inside one pair of quotation marks (as cmd.exe hands them through, or as
			// users type them): padding then sits OUTSIDE the marks on the second command line
			qm := rapid.SampledFrom([]string{"'", `"`, "`"}).Draw(t, "whole-quote")
			words = append([]string{}, words...)
			words[0] = qm + words[0]
			words[len(words)-1] += qm
		}
		q1 := strings.Join(words, " ")
		// second command line: re-cased, padded, split differently
		var args2 []string
		// every White_Space character pads or separates (the validator collapses them all): blanks and
		// tabs, line breaks, NBSP, en/em spaces, ideographic space, line and paragraph separators
		pad := rapid.SampledFrom([]string{"", " ", "  ", "\t", " \t ", "", " ", "\u00a0", " \u00a0", "\u2003 ", "\u3000\u3000", "\n", " \u2028", "\u2009\u200a", "\u1680", "\u0085 "})
		mode := rapid.SampledFrom([]string{"one-arg-padded", "split-args", "mixed"}).Draw(t, "arg-mode")
		var w2 []string
		for _, w := range words {
			r, _ := respell(t, w)
			w2 = append(w2, r)
		}
		switch mode {
		case "one-arg-padded":
			args2 = []string{pad.Draw(t, "lead") + strings.Join(w2, " "+pad.Draw(t, "mid")) + pad.Draw(t, "trail")}
		case "split-args":
			args2 = w2
		default:
			args2 = []string{pad.Draw(t, "lead") + w2[0] + pad.Draw(t, "mid")}
			if len(w2) > 1 {
				args2 = append(args2, strings.Join(w2[1:], "   "))
			}
		}
		common := []string{"--no-color", "-d", dbp, "--format", "json", "-v", "--limit", "20", "--all-platforms", "--"}
		if filtered {
			common = []string{"--no-color", "-d", dbp, "--format", "json", "-v", "--limit", "20", "--platform", "linux", "--no-cross-platform", "--"}
		}
		h1, _ := proc.NewHome(dir)
		h2, _ := proc.NewHome(dir)
		// both spellings run in the same - often odd - environment: a Turkish or C locale, another terminal,
		// a WSL session's variables; letter case is folded the same way whatever the locale says
		var lenv []string
		if rapid.Bool().Draw(t, "odd-environment") {
			lenv = append(gen.HostileEnv(t, "c20"), rapid.SampledFrom([]string{"LANG=tr_TR.UTF-8", "LC_ALL=tr_TR.UTF-8", "LANG=az_AZ.UTF-8", "LC_CTYPE=C", "LANG=lt_LT.UTF-8", "LC_ALL=POSIX"}).Draw(t, "locale"))
		}
		r1 := runWtf(h1, dir, append(append([]string{}, common...), q1), lenv...)
		r2 := runWtf(h2, dir, append(append([]string{}, common...), args2...), lenv...)
		if r1.Panicked() || r2.Panicked() || r1.TimedOut || r2.TimedOut {
			t.Fatalf("wtf crashed: %+v %+v", r1, r2)
		}
		parse := func(r proc.Result) []cliItem {
			if !strings.Contains(r.Stdout, "\n[") {
				return nil
			}
			items, err := parseJSONBlock(r.Stdout)
			if err != nil {
				t.Fatalf("bad JSON: %v\n%s", err, r.Stdout)
			}
			return items
		}
		i1, i2 := parse(r1), parse(r2)
		if !reflect.DeepEqual(i1, i2) {
			t.Fatalf("command lines that differ only in case/whitespace print different results:\n argv1=%q -> %+v\n argv2=%q -> %+v", []string{q1}, i1, args2, i2)
		}
		rec.Case(len(i1) > 0 && (len(args2) != 1 || args2[0] != q1), map[string]any{"argv1": q1, "argv2": args2, "printed": len(i1)}, "cli", "cli-mode:"+mode, fmt.Sprintf("all-entries-filtered-out:%v", filtered))
	})
}
