package props

import (
	"fmt"
	"math"
	"os"
	"sort"
	"strings"
	"sync"

	"github.com/Vedant9500/WTF/internal/database"
	"github.com/Vedant9500/WTF/internal/embedding"
	"github.com/Vedant9500/WTF/verifharness/gen"
	"github.com/Vedant9500/WTF/verifharness/ref"
	"pgregory.net/rapid"
)

// rankItem is one result as (index of the entry in db.Commands, score bits).
type rankItem struct {
	Idx  int
	Bits uint64
}

func (r rankItem) String() string {
	return fmt.Sprintf("#%d:%.17g", r.Idx, math.Float64frombits(r.Bits))
}

// rank converts a result list into (index, score-bits) pairs; Idx = -1 for a pointer
// that is not an element of db.Commands.
func rank(db *database.Database, res []database.SearchResult) []rankItem {
	out := make([]rankItem, len(res))
	for i, r := range res {
		out[i] = rankItem{gen.IndexOf(db, r.Command), math.Float64bits(r.Score)}
	}
	return out
}

func rankEq(a, b []rankItem) bool {
	if len(a) != len(b) {
		return false
	}
	for i := range a {
		if a[i] != b[i] {
			return false
		}
	}
	return true
}

func rankStr(a []rankItem) string {
	s := make([]string, len(a))
	for i, x := range a {
		s[i] = x.String()
	}
	return "[" + strings.Join(s, " ") + "]"
}

// idxSet returns the set of entry indices of a rank list.
func idxSet(a []rankItem) map[int]bool {
	m := map[int]bool{}
	for _, x := range a {
		m[x.Idx] = true
	}
	return m
}

func sortedIdx(m map[int]bool) []int {
	out := make([]int, 0, len(m))
	for k := range m {
		out = append(out, k)
	}
	sort.Ints(out)
	return out
}

// hookParams reads the BM25F parameters in force.
func hookParams(db *database.Database) ref.Params {
	k1, w, b, minIDF := database.VerifBM25FParams(db)
	return ref.Params{K1: k1, W: w, B: b, MinIDF: minIDF}
}

// optBrief renders options for samples and failure messages.
func optBrief(o database.SearchOptions) map[string]any {
	m := map[string]any{"limit": o.Limit}
	if o.UseNLP {
		m["nlp"] = true
	}
	if o.UseFuzzy {
		m["fuzzy"] = true
	}
	if o.FuzzyThreshold != 0 {
		m["threshold"] = o.FuzzyThreshold
	}
	if o.PipelineOnly {
		m["pipeline_only"] = true
	}
	if o.PipelineBoost != 0 {
		m["pipeline_boost"] = o.PipelineBoost
	}
	if o.AllPlatforms {
		m["all_platforms"] = true
	}
	if len(o.Platforms) > 0 {
		m["platforms"] = o.Platforms
	}
	if o.NoCrossPlatform {
		m["no_cross"] = true
	}
	if len(o.ContextBoosts) > 0 {
		m["boosts"] = o.ContextBoosts
	}
	if o.TopTermsCap != 0 {
		m["terms_cap"] = o.TopTermsCap
	}
	return m
}

// shipped loads the shipped 6,619-entry database once per process.
var (
	shippedOnce sync.Once
	shippedDB   *database.Database
	shippedErr  error
)

func shippedPath() string {
	repo := os.Getenv("VERIF_REPO")
	if repo == "" {
		repo = "/repo"
	}
	return repo + "/assets/commands.yml"
}

func shipped() (*database.Database, error) {
	shippedOnce.Do(func() { shippedDB, shippedErr = database.LoadDatabase(shippedPath()) })
	return shippedDB, shippedErr
}

// cloneCmds deep-copies the YAML-visible fields of a command list.
func cloneCmds(in []database.Command) []database.Command {
	out := make([]database.Command, len(in))
	for i, c := range in {
		out[i] = database.Command{Command: c.Command, Description: c.Description, Niche: c.Niche, Pipeline: c.Pipeline,
			Keywords: append([]string(nil), c.Keywords...), Tags: append([]string(nil), c.Tags...), Platform: append([]string(nil), c.Platform...)}
	}
	return out
}

// warmUp issues 0-3 searches on db before the search under test: a Database is a
// long-lived value, and an answer must not depend on what was asked of it before
// (memoised filter verdicts, lazily filled caches, corpora keyed too coarsely, ...).
// Half of the warm-ups are one-field deltas of the search under test (same query, one
// option changed) - the history most likely to collide with state keyed on too little.
func warmUp(t *rapid.T, db *database.Database, cmds []database.Command, target ...any) int {
	n := rapid.SampledFrom([]int{0, 0, 1, 2, 3}).Draw(t, "warmups")
	for i := 0; i < n; i++ {
		q, _ := gen.Query(t, cmds, []gen.QueryClass{"vocab", "stop", "one", "typo", "fragment", "nlp"})
		o := gen.Options(t, gen.OptSpec{N: len(cmds), NoNegLimit: true})
		if rapid.Bool().Draw(t, "warm-fuzzy") {
			o.UseFuzzy = true
		}
		if len(target) == 2 && rapid.Bool().Draw(t, "warm-delta") {
			q = target[0].(string)
			o = target[1].(database.SearchOptions)
			switch rapid.IntRange(0, 6).Draw(t, "delta-field") {
			case 0:
				o.Platforms = rapid.SampledFrom([][]string{nil, {"windows"}, {"macos"}, {"linux"}, {"windows", "linux"}}).Draw(t, "d-platforms")
			case 1:
				o.NoCrossPlatform = !o.NoCrossPlatform
			case 2:
				o.AllPlatforms = !o.AllPlatforms
			case 3:
				o.PipelineOnly = !o.PipelineOnly
			case 4:
				o.Limit = rapid.SampledFrom([]int{1, 2, 5, 50}).Draw(t, "d-limit")
			case 5:
				o.UseNLP = !o.UseNLP
			default:
				o.FuzzyThreshold = rapid.SampledFrom([]int{0, 5, 40}).Draw(t, "d-threshold")
			}
		}
		db.SearchUniversal(q, o)
	}
	return n
}

// drawEmbeddingIndex draws an in-memory embedding index for cmds: word vectors for most of
// the vocabulary, command embeddings with components in [-1,1], some of them the zero
// vector, sometimes fewer embeddings than commands.
func drawEmbeddingIndex(t *rapid.T, cmds []database.Command) *embedding.Index {
	dim := rapid.SampledFrom([]int{3, 8, 50}).Draw(t, "emb-dim")
	comp := rapid.Float32Range(-1, 1)
	idx := &embedding.Index{Dimension: dim, WordVectors: map[string][]float32{}}
	for _, w := range append(gen.Tokens(cmds), "find", "files", "show", "list") {
		switch rapid.IntRange(0, 5).Draw(t, "has-vec") {
		case 0:
		case 1:
			idx.WordVectors[w] = make([]float32, dim) // a zero word vector
		default:
			idx.WordVectors[w] = rapid.SliceOfN(comp, dim, dim).Draw(t, "wv")
		}
	}
	switch rapid.IntRange(0, 9).Draw(t, "emb-mode") {
	case 0:
		idx.WordVectors = map[string][]float32{} // glove.bin without a single known word: no query has an embedding
	case 1:
		return idx // word vectors only (cmd_embeddings.bin missing): nothing to compare with
	}
	n := len(cmds)
	if rapid.IntRange(0, 4).Draw(t, "fewer-emb") == 0 {
		n = rapid.IntRange(0, len(cmds)).Draw(t, "n-emb")
	}
	for i := 0; i < n; i++ {
		if i > 0 && rapid.IntRange(0, 3).Draw(t, "near-equal-emb") == 0 {
			// almost the embedding of the entry before (near-duplicate commands): similarities a hair apart
			v := append([]float32(nil), idx.CmdEmbeddings[i-1]...)
			v[rapid.IntRange(0, dim-1).Draw(t, "nudge-at")] += rapid.SampledFrom([]float32{1e-5, -1e-5, 1e-7, 3e-6}).Draw(t, "nudge")
			idx.CmdEmbeddings = append(idx.CmdEmbeddings, v)
			continue
		}
		if rapid.IntRange(0, 4).Draw(t, "zero-emb") == 0 {
			idx.CmdEmbeddings = append(idx.CmdEmbeddings, make([]float32, dim)) // a command without any known word
		} else {
			idx.CmdEmbeddings = append(idx.CmdEmbeddings, rapid.SliceOfN(comp, dim, dim).Draw(t, "ce"))
		}
	}
	return idx
}

// cloneEmbeddingIndex returns an independent deep copy of idx.
func cloneEmbeddingIndex(idx *embedding.Index) *embedding.Index {
	x := &embedding.Index{Dimension: idx.Dimension, WordVectors: map[string][]float32{}}
	for k, v := range idx.WordVectors {
		x.WordVectors[k] = append([]float32(nil), v...)
	}
	for _, v := range idx.CmdEmbeddings {
		x.CmdEmbeddings = append(x.CmdEmbeddings, append([]float32(nil), v...))
	}
	return x
}
