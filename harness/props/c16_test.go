package props

import (
	"encoding/json"
	"fmt"
	"os"
	"path/filepath"
	"strings"
	"testing"
	"time"
	"unicode/utf8"

	"github.com/Vedant9500/WTF/internal/history"
	"github.com/Vedant9500/WTF/verifharness/gen"
	"github.com/Vedant9500/WTF/verifharness/proc"
	"github.com/Vedant9500/WTF/verifharness/stat"
	"pgregory.net/rapid"
)

// C16 — search history is a bounded, ordered, faithfully persisted log.

type histEnt struct {
	q     string
	count int
	ctx   string
	durMs int64
}

func c16Query() *rapid.Generator[string] {
	return rapid.OneOf(
		rapid.SampledFrom([]string{"find files", "git commit", "docker ps", "FIND FILES", "x"}),
		rapid.SampledFrom([]string{"find files", "git commit", "docker ps", "FIND FILES", "x"}),
		rapid.String().Filter(utf8.ValidString),
		// letters whose other case form has another length in UTF-8 (k / U+212A, U+023A / U+2C65, ...),
		// title-case digraphs, final sigma: whatever a case-insensitive view folds
		rapid.SampledFrom([]string{"ȺȺ", "ȺȾȺ ls", "ⱥⱥ", "convert 300K", "convert 300k", "Ǆep ǅep ǆep", "ΣΑΣ", "σας", "ſtraße", "STRASSE", "İstanbul", "ı i I", "Å å Å"}),
		// the validator lets invalid UTF-8 through, so the history is handed such queries too
		rapid.SampledFrom([]string{"a\xe6", "zzqxj a\xe6", "\xff\xfe", "find \xc3", "ok \xe2\x82", "\x80\x80\x80", "caf\xe9"}),
		// texts that mean something to a JSON writer or reader: literal escape sequences, quotes,
		// backslashes, the characters encoding/json escapes for HTML, line separators, braces
		rapid.SampledFrom([]string{`printf '\u003e' prints what`, `echo "\u0026\u003c"`, `a \u0026\u0026 b`, `2>&1 | tee <in >out`, `say "hi" \"there\"`, `back\slash\`, `\\u003e`, `\n not a newline`, "real\nnewline", "tab\there", "uni\u2028sep\u2029", `{"entries":[]}`, `],"max_size":1}`, `</script>`, `\u00e9 é`, `\ud83d\ude00`, "\\", `"`, `\"`, "nul\x00byte"}),
	)
}

func c16Compare(t *rapid.T, sh *history.SearchHistory, model []histEnt, max int, steps []string) {
	if len(sh.Entries) != len(model) {
		t.Fatalf("history holds %d entries, reference log %d; steps=%v", len(sh.Entries), len(model), steps)
	}
	if len(sh.Entries) > max {
		t.Fatalf("history holds %d entries, maximum %d; steps=%v", len(sh.Entries), max, steps)
	}
	for i, e := range sh.Entries {
		m := model[i]
		if e.Query != m.q || e.ResultsCount != m.count || e.Context != m.ctx || e.Duration != m.durMs {
			t.Fatalf("entry %d = %+v, reference %+v; steps=%v", i, e, m, steps)
		}
		if i > 0 && e.Timestamp.Before(sh.Entries[i-1].Timestamp) {
			t.Fatalf("entries not in chronological order at %d; steps=%v", i, steps)
		}
	}
}

func c16Views(t *rapid.T, sh *history.SearchHistory, model []histEnt, steps []string) {
	n := rapid.SampledFrom([]int{-1, 0, 1, 2, 3, 10, 200}).Draw(t, "n")
	lim := n
	if lim <= 0 {
		lim = 10
	}
	// recent: distinct, newest first
	var want []string
	seen := map[string]bool{}
	for i := len(model) - 1; i >= 0 && len(want) < lim; i-- {
		if !seen[model[i].q] {
			seen[model[i].q] = true
			want = append(want, model[i].q)
		}
	}
	got := sh.GetRecentQueries(n)
	if fmt.Sprintf("%q", got) != fmt.Sprintf("%q", want) {
		t.Fatalf("GetRecentQueries(%d) = %q, reference %q; steps=%v", n, got, want, steps)
	}
	// top: counts agree, non-increasing, sum to len for n >= distinct
	freq := map[string]int{}
	for _, m := range model {
		freq[m.q]++
	}
	top := sh.GetTopQueries(n)
	if len(top) > lim || (len(freq) <= lim && len(top) != len(freq)) || (len(freq) > lim && len(top) != lim) {
		t.Fatalf("GetTopQueries(%d) returned %d items for %d distinct queries; steps=%v", n, len(top), len(freq), steps)
	}
	sum, seenTop := 0, map[string]bool{}
	for i, qf := range top {
		if freq[qf.Query] != qf.Count || qf.Count == 0 {
			t.Fatalf("GetTopQueries: %q count %d, reference %d; steps=%v", qf.Query, qf.Count, freq[qf.Query], steps)
		}
		if seenTop[qf.Query] {
			t.Fatalf("GetTopQueries lists %q twice", qf.Query)
		}
		seenTop[qf.Query] = true
		if i > 0 && top[i-1].Count < qf.Count {
			t.Fatalf("GetTopQueries not ordered by frequency: %d before %d", top[i-1].Count, qf.Count)
		}
		sum += qf.Count
	}
	if len(freq) <= lim && sum != len(model) {
		t.Fatalf("top-query frequencies sum to %d, history has %d entries; steps=%v", sum, len(model), steps)
	}
	if len(freq) > lim { // the ones listed must be the most frequent
		minListed := top[len(top)-1].Count
		for q, c := range freq {
			if !seenTop[q] && c > minListed {
				t.Fatalf("GetTopQueries(%d) omits %q (count %d) but lists one with count %d", n, q, c, minListed)
			}
		}
	}
	// stats
	st := sh.GetStats()
	if len(model) == 0 {
		if st.TotalSearches != 0 || st.UniqueQueries != 0 {
			t.Fatalf("stats of an empty history: %+v", st)
		}
	} else {
		tot, dur := 0, int64(0)
		for _, m := range model {
			tot += m.count
			dur += m.durMs
		}
		wantAvg := float64(tot) / float64(len(model))
		wantDur := 0.0
		if dur > 0 {
			wantDur = float64(dur) / float64(len(model))
		}
		if st.TotalSearches != len(model) || st.UniqueQueries != len(freq) || st.AvgResultsPerSearch != wantAvg || st.AvgSearchDuration != wantDur ||
			!st.OldestEntry.Equal(sh.Entries[0].Timestamp) || !st.NewestEntry.Equal(sh.Entries[len(sh.Entries)-1].Timestamp) {
			t.Fatalf("stats %+v disagree with the log (n=%d unique=%d avg=%v dur=%v); steps=%v", st, len(model), len(freq), wantAvg, wantDur, steps)
		}
	}
	// pattern view: exactly the entries containing the pattern (case-insensitive), newest first
	pat := rapid.SampledFrom([]string{"find", "FILES", "git", "x", "", "zz"}).Draw(t, "pattern")
	if len(model) > 0 && rapid.IntRange(0, 2).Draw(t, "pattern-from-log") != 0 {
		// a recorded query itself, or a piece of it, as typed or in the other letter case
		rs := []rune(model[rapid.IntRange(0, len(model)-1).Draw(t, "pattern-of")].q)
		if len(rs) > 0 && rapid.Bool().Draw(t, "pattern-piece") {
			a := rapid.IntRange(0, len(rs)-1).Draw(t, "piece-from")
			rs = rs[a : a+rapid.IntRange(1, len(rs)-a).Draw(t, "piece-len")]
		}
		pat = string(rs)
		switch rapid.IntRange(0, 2).Draw(t, "pattern-case") {
		case 1:
			pat = strings.ToUpper(pat)
		case 2:
			pat = strings.ToLower(pat)
		}
	}
	wantN := 0
	for _, m := range model {
		if strings.Contains(strings.ToLower(m.q), strings.ToLower(pat)) {
			wantN++
		}
	}
	gotP := sh.GetEntriesByPattern(pat)
	if len(gotP) != wantN {
		t.Fatalf("GetEntriesByPattern(%q) returned %d entries, reference %d; steps=%v", pat, len(gotP), wantN, steps)
	}
	for i, e := range gotP {
		if !strings.Contains(strings.ToLower(e.Query), strings.ToLower(pat)) {
			t.Fatalf("GetEntriesByPattern(%q) returned %q", pat, e.Query)
		}
		if i > 0 && e.Timestamp.After(gotP[i-1].Timestamp) {
			t.Fatalf("GetEntriesByPattern not newest first")
		}
	}
}

func TestC16_Log(t *testing.T) {
	rec := stat.For("C16")
	rec.Rule("(A) rapid state machine: NewSearchHistory(path, max in {-1,0,1,2,5,100}); add(query from a pool of 5 or any valid UTF-8 string, count, context, duration) / save / load into a fresh object / load into the same object (dropping unsaved additions) / clear / views (recent, top, stats, pattern). Oracle: reference log (append; immediate repeat replaces the last entry; keep the newest max', max' = max>0 ? max : default>0), entry-by-entry equality incl. after save->load, view results recomputed from the log. Non-trivial = the sequence crosses the bound or has an immediate repeat across a save/load.")
	rapid.Check(t, func(t *rapid.T) {
		path := gen.TempPath(".json")
		defer os.Remove(path)
		maxIn := rapid.SampledFrom([]int{2, 1, 5, -1, 0, 100, 2, 5, 10001, 20000, 1 << 40}).Draw(t, "max")
		sh := history.NewSearchHistory(path, maxIn)
		max := sh.MaxSize
		if max <= 0 {
			t.Fatalf("NewSearchHistory(max=%d) has MaxSize %d: no positive default in force", maxIn, max)
		}
		if maxIn > 0 && max != maxIn {
			t.Fatalf("NewSearchHistory(max=%d) has MaxSize %d", maxIn, max)
		}
		var model []histEnt
		var steps []string
		crossed, repeatAcross, loadedSinceAdd := false, false, false
		saved := false
		var savedModel []histEnt
		var rawLog []string
		reloads := 0
		t.Repeat(map[string]func(*rapid.T){
			"reload": func(t *rapid.T) {
				// Load into the SAME object: unsaved additions are dropped, the log is what the file holds
				if err := sh.Load(); err != nil {
					t.Fatalf("Load: %v", err)
				}
				if saved {
					model = append([]histEnt(nil), savedModel...)
					reloads++
				}
				if sh.MaxSize != max {
					t.Fatalf("maximum changed by Load: %d -> %d", max, sh.MaxSize)
				}
				loadedSinceAdd = true
				steps = append(steps, "reload")
			},
			"add": func(t *rapid.T) {
				raw := c16Query().Draw(t, "q")
				if len(rawLog) > 0 && rapid.IntRange(0, 3).Draw(t, "repeat") == 0 {
					raw = rawLog[len(rawLog)-1] // the same query again, as it was typed
				}
				rawLog = append(rawLog, raw)
				// the reference log holds a query in the form it reads back from the file (JSON has no invalid UTF-8)
				e := histEnt{jsonRoundTrip(raw), rapid.IntRange(0, 50).Draw(t, "count"), rapid.SampledFrom([]string{"", "Git repository", "Go project (x)"}).Draw(t, "ctx"), int64(rapid.IntRange(0, 3000).Draw(t, "ms"))}
				sh.AddEntry(raw, e.count, e.ctx, time.Duration(e.durMs)*time.Millisecond+time.Duration(rapid.IntRange(0, 999).Draw(t, "us"))*time.Microsecond)
				steps = append(steps, fmt.Sprintf("add(%q)", clip(e.q)))
				if len(model) > 0 && model[len(model)-1].q == e.q {
					model[len(model)-1] = e
					if loadedSinceAdd {
						repeatAcross = true
					}
				} else {
					model = append(model, e)
					if len(model) > max {
						model = model[len(model)-max:]
						crossed = true
					}
				}
				loadedSinceAdd = false
			},
			"save": func(t *rapid.T) {
				if err := sh.Save(); err != nil {
					t.Fatalf("Save: %v", err)
				}
				saved = true
				savedModel = append([]histEnt(nil), model...)
				steps = append(steps, "save")
			},
			"saveload": func(t *rapid.T) {
				if err := sh.Save(); err != nil {
					t.Fatalf("Save: %v", err)
				}
				saved = true
				savedModel = append([]histEnt(nil), model...)
				fresh := history.NewSearchHistory(path, rapid.SampledFrom([]int{100, 3, 0}).Draw(t, "new-max"))
				if err := fresh.Load(); err != nil {
					t.Fatalf("Load of a file written by Save: %v", err)
				}
				for i := range fresh.Entries {
					if i < len(sh.Entries) && !fresh.Entries[i].Timestamp.Equal(sh.Entries[i].Timestamp) {
						t.Fatalf("timestamp of entry %d changed across save/load: %v vs %v", i, fresh.Entries[i].Timestamp, sh.Entries[i].Timestamp)
					}
				}
				sh = fresh
				if sh.MaxSize != max {
					t.Fatalf("maximum changed across save/load: %d -> %d", max, sh.MaxSize)
				}
				loadedSinceAdd = true
				steps = append(steps, "save+load")
			},
			"clear": func(t *rapid.T) {
				if err := sh.Clear(); err != nil {
					t.Fatalf("Clear: %v", err)
				}
				model = nil
				saved = true
				savedModel = nil
				fresh := history.NewSearchHistory(path, 100)
				if err := fresh.Load(); err != nil || len(fresh.Entries) != 0 {
					t.Fatalf("after Clear the file still holds %d entries (err %v)", len(fresh.Entries), err)
				}
				steps = append(steps, "clear")
			},
			"views": func(t *rapid.T) { c16Views(t, sh, model, steps) },
			"": func(t *rapid.T) {
				c16Compare(t, sh, model, max, steps)
				// the derived views after EVERY step (a view that remembers an earlier answer shows up here)
				distinct := map[string]bool{}
				for _, m := range model {
					distinct[m.q] = true
				}
				if st := sh.GetStats(); st.TotalSearches != len(model) || st.UniqueQueries != len(distinct) {
					t.Fatalf("stats report %d searches / %d distinct queries, the log holds %d / %d; steps=%v", st.TotalSearches, st.UniqueQueries, len(model), len(distinct), steps)
				}
				if top := sh.GetTopQueries(1000); len(top) != len(distinct) {
					t.Fatalf("GetTopQueries lists %d queries, the log holds %d distinct ones; steps=%v", len(top), len(distinct), steps)
				}
				if rq := sh.GetRecentQueries(1000); len(rq) != len(distinct) || (len(model) > 0 && rq[0] != model[len(model)-1].q) {
					t.Fatalf("GetRecentQueries = %q, the log holds %d distinct queries ending in %q; steps=%v", rq, len(distinct), model[len(model)-1].q, steps)
				}
			},
		})
		labels := []string{"log", fmt.Sprintf("max:%d", maxIn)}
		if reloads > 0 {
			labels = append(labels, "reload-same-object")
		}
		if crossed {
			labels = append(labels, "crossed-bound")
		}
		if repeatAcross {
			labels = append(labels, "repeat-across-load")
		}
		if len(steps) > 40 {
			steps = append(steps[:40], "...")
		}
		rec.Case(crossed || repeatAcross, map[string]any{"max": maxIn, "steps": steps}, labels...)
	})
}

// c16File draws history file content: JSON-ish objects with hostile fields, damaged JSON, bytes.
func c16File(t *rapid.T) ([]byte, bool) {
	switch rapid.IntRange(0, 5).Draw(t, "file-kind") {
	case 0:
		return rapid.SliceOfN(rapid.Byte(), 0, 80).Draw(t, "bytes"), false
	case 1:
		return []byte(rapid.SampledFrom([]string{"", "null", "[]", "{}", "42", `"x"`, "{", `{"entries":`, `{"entries":null,"max_size":null}`,
			// one to four bytes: cut-off byte order marks and the first bytes of JSON values
			"\xef", "\xef\xbb", "\xef\xbb\xbf", "\xef\xbb\xbf{}", "\xfe", "\xfe\xff", "\xff\xfe", "\xff", "[", "n", "nu", "t", "\"", "-", "0", " ", "\n", "\x00", "\x00\x00", "{\"", "\xef\xbb\xbf{\"entries\":[],\"max_size\":3}"}).Draw(t, "lit")), true
	}
	maxSize := rapid.SampledFrom([]string{"-5", "0", "1", "2", "100", "1000000000", `"x"`, "null", "1e3", "-1", "1.5", "9223372036854775807", "-9223372036854775808"}).Draw(t, "max_size")
	var ents []string
	n := rapid.IntRange(0, 6).Draw(t, "n-entries")
	for i := 0; i < n; i++ {
		q, _ := json.Marshal(rapid.OneOf(rapid.SampledFrom([]string{"find files", "x"}), rapid.String().Filter(utf8.ValidString)).Draw(t, "eq"))
		ts := rapid.SampledFrom([]string{`"2025-01-02T03:04:05Z"`, `"2025-01-02T03:04:05.123456789+05:30"`, `"0001-01-01T00:00:00Z"`, `"9999-12-31T23:59:59Z"`, `"bad"`, `null`, `17`}).Draw(t, "ts")
		rc := rapid.SampledFrom([]string{"0", "3", "-1", `"7"`, "1e2", "null"}).Draw(t, "rc")
		ents = append(ents, fmt.Sprintf(`{"query":%s,"timestamp":%s,"results_count":%s,"duration":%d}`, q, ts, rc, rapid.IntRange(-5, 5000).Draw(t, "dur")))
	}
	entries := "[" + strings.Join(ents, ",") + "]"
	if rapid.IntRange(0, 6).Draw(t, "entries-type") == 0 {
		entries = rapid.SampledFrom([]string{`"x"`, "null", "{}", "7"}).Draw(t, "entries-bad")
	}
	doc := fmt.Sprintf(`{"entries":%s,"max_size":%s}`, entries, maxSize)
	if rapid.IntRange(0, 5).Draw(t, "truncate") == 0 && len(doc) > 2 {
		doc = doc[:rapid.IntRange(1, len(doc)-1).Draw(t, "cut")]
	}
	return []byte(doc), true
}

// c16Record is what the CLI does after every search, on top of an arbitrary file.
func c16Record(path, q string) (msg string) {
	sh := history.NewSearchHistory(path, 100)
	_ = sh.Load() // errors ignored, as the CLI does
	first := len(sh.Entries)
	_ = sh.Load() // loading again gives the same log (whatever maximum the first load took over)
	if len(sh.Entries) != first {
		return fmt.Sprintf("loading the same file twice gives %d entries, then %d", first, len(sh.Entries))
	}
	if msg := c16ViewsAgree(sh); msg != "" {
		return "after loading the file: " + msg
	}
	repeat := first > 0 && sh.Entries[first-1].Query == q
	sh.AddEntry(q, 3, "", 5*time.Millisecond)
	// whatever the file held (more entries than its own maximum, entries that made the load fail half-way):
	// once a new search is recorded the log is within its maximum again
	if !repeat && (sh.MaxSize <= 0 || len(sh.Entries) > sh.MaxSize) {
		return fmt.Sprintf("after recording the new search %q the history holds %d entries, maximum %d", q, len(sh.Entries), sh.MaxSize)
	}
	if msg := c16ViewsAgree(sh); msg != "" {
		return "after loading the file and recording a search: " + msg
	}
	if len(sh.Entries) == 0 || sh.Entries[len(sh.Entries)-1].Query != q {
		return fmt.Sprintf("after recording %q the newest entry is not that search (history holds %d entries, maximum %d)", q, len(sh.Entries), sh.MaxSize)
	}
	if err := sh.Save(); err != nil {
		return "" // a failed save is reported, not a crash; nothing further is claimed
	}
	fresh := history.NewSearchHistory(path, 100)
	if err := fresh.Load(); err != nil {
		return "the file written after recording a search does not load: " + err.Error()
	}
	if len(fresh.Entries) == 0 || fresh.Entries[len(fresh.Entries)-1].Query != q {
		return fmt.Sprintf("after save and reload the newest entry is not the recorded search %q", q)
	}
	// and recording once more still works
	fresh.AddEntry(q+" again", 1, "", time.Millisecond)
	if fresh.Entries[len(fresh.Entries)-1].Query != q+" again" {
		return "second recording lost"
	}
	if len(fresh.Entries) > fresh.MaxSize {
		return fmt.Sprintf("after save, reload and another search the history holds %d entries, maximum %d", len(fresh.Entries), fresh.MaxSize)
	}
	return ""
}

func TestC16_File(t *testing.T) {
	rec := stat.For("C16")
	rec.Rule("(B) history file bytes from a JSON-ish generator (max_size in {-5,0,1,1e9,\"x\",null,1e3,...}, entries of wrong type, bad timestamps, truncation) or raw bytes; then Load (error ignored as the CLI does), AddEntry, Save, Load. Oracle: no panic; the recorded search is the newest entry in memory, and after a successful save also on reload; top / recent / statistics views agree with whatever entries were loaded (order-independent clauses). Non-trivial = file is syntactically valid JSON.")
	rapid.Check(t, func(t *rapid.T) {
		data, jsonish := c16File(t)
		path := gen.TempPath(".json")
		defer os.Remove(path)
		if err := os.WriteFile(path, data, 0o644); err != nil {
			t.Fatalf("harness: %v", err)
		}
		q := rapid.SampledFrom([]string{"find files", "x", "docker ps"}).Draw(t, "q")
		if msg := c16Record(path, q); msg != "" {
			t.Fatalf("%s\n file content: %s", msg, clip(string(data)))
		}
		valid := json.Valid(data)
		labels := []string{"file"}
		if valid {
			labels = append(labels, "file-valid-json")
		}
		_ = jsonish
		rec.Case(valid, map[string]any{"file": clip(string(data)), "valid_json": valid}, labels...)
	})
}

// c16Zone draws the time-zone / locale part of a run's environment (often none).
func c16Zone(t *rapid.T) []string {
	return rapid.SampledFrom([][]string{nil, nil, {"TZ=UTC"}, {"TZ=Pacific/Kiritimati"}, {"TZ=Pacific/Pago_Pago"}, {"TZ=America/St_Johns"}, {"TZ=Asia/Kathmandu"}, {"TZ=:/nonexistent"}, {"TZ="}, {"TZ=Europe/Istanbul", "LANG=tr_TR.UTF-8"}, {"LC_ALL=C"}}).Draw(t, "zone")
}

// TestC16_CLIViews: the `wtf history` views agree with the searches actually made.
func TestC16_CLIViews(t *testing.T) {
	needWtf(t)
	rec := stat.For("C16")
	rec.Rule("(C) built binary: 1-8 searches from a pool of 4 queries (with immediate repeats) in an isolated HOME, then `wtf history`, `--stats`, `--top`, a pattern, `--clear`. Oracle: recent view = distinct queries newest first; stats totals = reference log; top counts = reference frequencies and sum to the entry count; pattern view lists exactly the matching entries; after --clear the history is empty.")
	rapid.Check(t, func(t *rapid.T) {
		dir := mkdirWork("c16cli-")
		defer os.RemoveAll(dir)
		h, _ := proc.NewHome(dir)
		dbp := dir + "/db.yml"
		os.WriteFile(dbp, gen.EmitYAML(c08Main), 0o644)
		pool := []string{"list directory", "compress", "disk usage", "zzqx nothing"}
		var log []string
		// where the history file lives: a plain file (usual), or a symbolic link - absolute, or relative to
		// the link's own directory (a bare sibling name, ./name, ../wtf/name) - while the searches run
		// from another working directory; a relative link names the same file wherever the process stands
		layout := rapid.SampledFrom([]string{"plain", "plain", "link-abs", "link-rel", "link-rel"}).Draw(t, "history-layout")
		if layout != "plain" {
			hd := filepath.Dir(h.History())
			os.MkdirAll(hd, 0o755)
			target := rapid.SampledFrom([]string{"history.real.json", "./history.real.json", "../wtf/history.real.json"}).Draw(t, "link-target")
			if layout == "link-abs" {
				target = filepath.Join(hd, "history.real.json")
			}
			if rapid.Bool().Draw(t, "target-exists") {
				os.WriteFile(filepath.Join(hd, "history.real.json"), []byte(`{"entries":[],"max_size":100}`), 0o644)
			}
			if err := os.Symlink(target, h.History()); err != nil {
				t.Fatalf("harness: %v", err)
			}
		}
		for i := rapid.IntRange(1, 8).Draw(t, "searches"); i > 0; i-- {
			q := rapid.SampledFrom(pool).Draw(t, "q")
			if len(log) > 0 && rapid.IntRange(0, 3).Draw(t, "repeat") == 0 {
				q = log[len(log)-1]
			}
			// every search may run under another time zone / locale (a laptop that travels): the log is
			// ordered by when the searches were made, however the moments are written down
			r := runWtf(h, dir, []string{"--no-color", "-d", dbp, "--", q}, c16Zone(t)...)
			if r.Panicked() || !strings.Contains(r.Stdout, "Searching for: "+q) {
				t.Fatalf("search %q failed: %s", q, clip(r.Stdout))
			}
			if len(log) > 0 && log[len(log)-1] == q {
				continue // immediate repeat updates the last entry
			}
			log = append(log, q)
		}
		freq := map[string]int{}
		var recent []string
		seen := map[string]bool{}
		for i := len(log) - 1; i >= 0; i-- {
			freq[log[i]]++
			if !seen[log[i]] {
				seen[log[i]] = true
				recent = append(recent, log[i])
			}
		}
		out := runWtf(h, dir, []string{"history", "--limit", "50"}, c16Zone(t)...).Stdout
		var shown []string
		for _, l := range strings.Split(out, "\n") {
			if m := numbered.FindStringSubmatch(l); m != nil {
				shown = append(shown, m[2])
			}
		}
		if fmt.Sprint(shown) != fmt.Sprint(recent) {
			t.Fatalf("`wtf history` shows %q, searches made (distinct, newest first) %q\n%s", shown, recent, out)
		}
		st := runWtf(h, dir, []string{"history", "--stats"}, c16Zone(t)...).Stdout
		if !strings.Contains(st, fmt.Sprintf("Total searches: %d\n", len(log))) || !strings.Contains(st, fmt.Sprintf("Unique queries: %d\n", len(freq))) {
			t.Fatalf("`wtf history --stats` disagrees with %d entries / %d unique queries:\n%s", len(log), len(freq), st)
		}
		top := runWtf(h, dir, []string{"history", "--top", "--limit", "50"}, c16Zone(t)...).Stdout
		sum := 0
		for q, n := range freq {
			if !strings.Contains(top, fmt.Sprintf("\"%s\" (%d times", q, n)) {
				t.Fatalf("`wtf history --top` does not list %q with %d times:\n%s", q, n, top)
			}
			sum += n
		}
		if sum != len(log) {
			t.Fatalf("harness: frequency sum")
		}
		pat := runWtf(h, dir, []string{"history", "--limit", "50", "--", "dis"}, c16Zone(t)...).Stdout
		wantPat := 0
		for _, q := range log {
			if strings.Contains(q, "dis") {
				wantPat++
			}
		}
		gotPat := 0
		for _, l := range strings.Split(pat, "\n") {
			if numbered.MatchString(l) {
				gotPat++
			}
		}
		if gotPat != wantPat {
			t.Fatalf("`wtf history dis` lists %d entries, %d searches contain \"dis\":\n%s", gotPat, wantPat, pat)
		}
		cl := runWtf(h, dir, []string{"history", "--clear"}).Stdout
		after := runWtf(h, dir, []string{"history"}).Stdout
		if !strings.Contains(cl, "cleared") || !strings.Contains(after, "No search history found") {
			t.Fatalf("after --clear the history is not empty:\n%s\n%s", cl, after)
		}
		rec.Case(len(log) >= 2, map[string]any{"cli_views": true, "log": log}, "cli-views")
	})
}

// c16ViewsAgree checks the order-independent part of "the views agree with the entries" on
// whatever entries the history holds (a hand-edited file may hold entries in any order,
// without timestamps, with repeated neighbours): frequencies sum to the entry count, the top
// and recent views list every distinct query exactly once, the statistics count them.
func c16ViewsAgree(sh *history.SearchHistory) string {
	freq := map[string]int{}
	for _, e := range sh.Entries {
		freq[e.Query]++
	}
	all := len(sh.Entries) + 10
	sum := 0
	seen := map[string]bool{}
	for _, qf := range sh.GetTopQueries(all) {
		if seen[qf.Query] {
			return fmt.Sprintf("the top view lists %q twice", qf.Query)
		}
		seen[qf.Query] = true
		if freq[qf.Query] != qf.Count {
			return fmt.Sprintf("the top view counts %q %d times, the entries hold it %d times", qf.Query, qf.Count, freq[qf.Query])
		}
		sum += qf.Count
	}
	if sum != len(sh.Entries) || len(seen) != len(freq) {
		return fmt.Sprintf("top-query frequencies sum to %d over %d queries, the history holds %d entries with %d distinct queries", sum, len(seen), len(sh.Entries), len(freq))
	}
	rq := sh.GetRecentQueries(all)
	seenR := map[string]bool{}
	for _, q := range rq {
		if seenR[q] {
			return fmt.Sprintf("the recent view lists %q twice", q)
		}
		seenR[q] = true
		if freq[q] == 0 {
			return fmt.Sprintf("the recent view lists %q, which no entry holds", q)
		}
	}
	if len(rq) != len(freq) {
		return fmt.Sprintf("the recent view lists %d queries, the entries hold %d distinct ones", len(rq), len(freq))
	}
	if st := sh.GetStats(); st.TotalSearches != len(sh.Entries) || st.UniqueQueries != len(freq) {
		return fmt.Sprintf("statistics report %d searches / %d distinct queries, the entries are %d / %d", st.TotalSearches, st.UniqueQueries, len(sh.Entries), len(freq))
	}
	return ""
}
