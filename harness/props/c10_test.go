package props

import (
	"errors"
	"fmt"
	"io/fs"
	"math"
	"os"
	"path/filepath"
	"reflect"
	"strings"
	"sync"
	"testing"
	"time"
	"unicode/utf16"
	"unicode/utf8"

	"gopkg.in/yaml.v3"

	"github.com/Vedant9500/WTF/internal/database"
	apperrors "github.com/Vedant9500/WTF/internal/errors"
	"github.com/Vedant9500/WTF/internal/recovery"
	"github.com/Vedant9500/WTF/verifharness/gen"
	"github.com/Vedant9500/WTF/verifharness/stat"
	"pgregory.net/rapid"
)

// C10 — no input crashes the engine: any database file, any query, any options.

const c10Watchdog = 60 * time.Second

// errKind is a wording-independent signature of how LoadDatabase classified a failure:
// the error type plus the first suggestion, calibrated from canonical examples at run time.
func errKind(err error) string {
	var ae *apperrors.AppError
	if errors.As(err, &ae) {
		s := ""
		if len(ae.Suggestions) > 0 {
			s = ae.Suggestions[0]
		}
		return string(ae.Type) + "|" + s
	}
	return fmt.Sprintf("%T", err)
}

var (
	c10CalOnce                   sync.Once
	c10KindMissing, c10KindParse string
	c10CalErr                    string
)

func c10Calibrate() {
	c10CalOnce.Do(func() {
		_, e1 := database.LoadDatabase(gen.TempPath("-definitely-missing.yml"))
		p := gen.TempPath(".yml")
		os.WriteFile(p, []byte("- [\n"), 0o644)
		defer os.Remove(p)
		_, e2 := database.LoadDatabase(p)
		if e1 == nil || e2 == nil {
			c10CalErr = fmt.Sprintf("LoadDatabase accepted a missing file (%v) or unterminated YAML (%v)", e1, e2)
			return
		}
		if !errors.Is(e1, fs.ErrNotExist) {
			c10CalErr = fmt.Sprintf("a missing database file is not reported as not-found: %v", e1)
			return
		}
		c10KindMissing, c10KindParse = errKind(e1), errKind(e2)
		if c10KindMissing == c10KindParse {
			c10CalErr = "not-found and parse failures are reported identically (" + c10KindMissing + ")"
		}
	})
}

// c10Scalar draws a hostile YAML scalar (already in YAML syntax).
func c10Scalar(t *rapid.T) string {
	switch rapid.IntRange(0, 11).Draw(t, "scalar-kind") {
	case 0, 1, 2:
		return gen.YQ(gen.Text(0, 4).Draw(t, "txt"))
	case 3:
		return gen.YQ(rapid.String().Draw(t, "str")) // may hold NUL, ESC, invalid UTF-8 (-> !!binary)
	case 4:
		return gen.YQ(rapid.SampledFrom([]string{"\x00", "a\x00b", "\x1b[31m", "no such file or directory", "permission denied", "yaml: x", " ", "\ufeff", strings.Repeat("a", 5000)}).Draw(t, "hostile"))
	case 5:
		return rapid.SampledFrom([]string{"null", "~", "true", "123", "1e9", "0x1f", "[]", "{}", "[1, 2]", "{a: b}", "!!binary \"/w==\"", "!!binary \"AAEC\"", "2001-01-01", ".inf", ".nan", "!!str 5", "!!int \"7\""}).Draw(t, "typed")
	case 6:
		return rapid.SampledFrom([]string{"&a x", "*a", "&b [*a, *a]", "<<: *a", "! x", "!!python/object x", "|\n    block\n    text", ">-\n    folded"}).Draw(t, "anchors")
	case 7:
		return "\"" + strings.Repeat("x y ", rapid.IntRange(100, 4000).Draw(t, "rep")) + "\""
	case 8:
		return rapid.StringMatching(`[a-zA-Z0-9 _.:#\-\[\]{},&*!|>'"%@]{0,12}`).Draw(t, "plain")
	default:
		return gen.YQ(gen.TextOf(gen.UWord(true), 0, 4).Draw(t, "utxt"))
	}
}

func c10Doc(t *rapid.T) ([]byte, string) {
	kind := rapid.SampledFrom([]string{"entries", "entries", "entries", "wellformed", "wellformed", "damaged", "binary", "shape", "tiny"}).Draw(t, "doc-kind")
	switch kind {
	case "wellformed":
		cmds, _ := gen.DB(t, gen.CmdOpts{Platforms: true, Unicode: true, Irregular: true, Sized: true, Long: true, Heavy: true}, []int{1, 2, 3, 8, 0})
		if rapid.Bool().Draw(t, "hostile-field") && len(cmds) > 0 {
			i := rapid.IntRange(0, len(cmds)-1).Draw(t, "i")
			cmds[i].Command = rapid.SampledFrom([]string{"a\x00b", "\x00", "kill\x00all", "x\xffy", "\x1b[0m", "ab\xe2\x00cd ", "x\xc3\x00y", "a\xf0\x00\x00\x00z", "k\xe2\x82\x00l", "\xc2\x00", "ab\xe2"}).Draw(t, "hc") + cmds[i].Command
			cmds[i].Description += rapid.SampledFrom([]string{"\x00", " \x00 tail", "", " lead\xe2\x00tail", "\xf0\x9f\x00"}).Draw(t, "hd")
		}
		doc := gen.EmitYAML(cmds)
		if utf8.Valid(doc) {
			// YAML streams may be UTF-8 with a byte order mark, or UTF-16 (either byte order) behind one
			switch rapid.IntRange(0, 9).Draw(t, "encoding") {
			case 0:
				doc = append([]byte("\xef\xbb\xbf"), doc...)
			case 1, 2:
				le := rapid.Bool().Draw(t, "little-endian")
				u := utf16.Encode([]rune("\ufeff" + string(doc)))
				out := make([]byte, 0, 2*len(u))
				for _, x := range u {
					if le {
						out = append(out, byte(x), byte(x>>8))
					} else {
						out = append(out, byte(x>>8), byte(x))
					}
				}
				doc = out
			}
		}
		return doc, kind
	case "entries", "damaged":
		var b strings.Builder
		if rapid.IntRange(0, 9).Draw(t, "bom") == 0 {
			b.WriteString("\ufeff")
		}
		n := rapid.IntRange(0, 6).Draw(t, "n")
		keys := []string{"command", "description", "keywords", "tags", "niche", "platform", "pipeline", "extra", "command"}
		for i := 0; i < n; i++ {
			first := true
			for _, k := range keys {
				if rapid.IntRange(0, 3).Draw(t, "has-key") == 0 {
					continue
				}
				if first {
					b.WriteString("- ")
					first = false
				} else {
					b.WriteString(rapid.SampledFrom([]string{"  ", "  ", "  ", "\t", " "}).Draw(t, "indent"))
				}
				v := c10Scalar(t)
				if (k == "keywords" || k == "tags" || k == "platform") && rapid.Bool().Draw(t, "as-list") {
					v = "[" + c10Scalar(t) + ", " + c10Scalar(t) + "]"
				}
				b.WriteString(k + ": " + v + "\n")
			}
			if first {
				b.WriteString("- " + c10Scalar(t) + "\n")
			}
		}
		doc := []byte(b.String())
		if kind == "damaged" && len(doc) > 0 {
			switch rapid.IntRange(0, 2).Draw(t, "damage") {
			case 0:
				doc = doc[:rapid.IntRange(0, len(doc)-1).Draw(t, "cut")]
			case 1:
				for k := rapid.IntRange(1, 4).Draw(t, "flips"); k > 0; k-- {
					doc[rapid.IntRange(0, len(doc)-1).Draw(t, "pos")] = rapid.Byte().Draw(t, "byte")
				}
			default:
				i := rapid.IntRange(0, len(doc)-1).Draw(t, "ins")
				doc = append(doc[:i:i], append([]byte(rapid.SampledFrom([]string{"\t", "]", "{", "\"", ": ", "\n-", "\x00", "*x", "&"}).Draw(t, "junk")), doc[i:]...)...)
			}
		}
		return doc, kind
	case "binary":
		return rapid.SliceOfN(rapid.Byte(), 0, 200).Draw(t, "bytes"), kind
	case "shape":
		return []byte(rapid.SampledFrom([]string{"", "\n", "null", "~", "[]", "{}", "42", "just text", "a: b", "- 1\n- 2", "- [a, b]", "- {command: [x]}", "- command: {a: b}", "---\n- command: a\n---\n- command: b\n", "- command: a\n  pipeline: maybe", "- command: a\n  keywords: x", "&a [*a]", "- &a {command: x}\n- *a", "%YAML 1.1\n---\n[]", "no such file or directory", "permission denied", "- pipeline: yes\n  command: y",
			"- {\"no such file or directory\": 1, \"no such file or directory\": 2}", "- command: a\n  \"permission denied\": 1\n  \"permission denied\": 2\n",
			"\"no such file or directory\": 1\n\"no such file or directory\": 2\n", "- command: x\n  command: \"permission denied\"\n"}).Draw(t, "shape")), kind
	default:
		return []byte(rapid.StringN(0, 12, -1).Draw(t, "tiny")), kind
	}
}

func c10Query(t *rapid.T, cmds []database.Command) string {
	for i := range cmds {
		// an entry made of letters whose lower-case form has another byte length: ask for it, in either spelling
		for _, cl := range gen.CaseLength {
			if cmds[i].Command == cl && rapid.Bool().Draw(t, "ask-case-length") {
				return rapid.SampledFrom([]string{cl, strings.ToLower(cl), "kkk", strings.ToLower(cl) + " x"}).Draw(t, "case-length-query")
			}
		}
	}
	switch rapid.IntRange(0, 9).Draw(t, "qkind") {
	case 9: // the context-clue words of the language heuristics, in complete and cut-off phrases
		return gen.ClueSentence(t)
	case 8: // byte length and character count on different sides of any threshold
		return gen.SizedText(t, rapid.Bool().Draw(t, "sized-spaces"))
	case 0:
		return rapid.String().Draw(t, "q")
	case 1:
		return string(rapid.SliceOfN(rapid.Byte(), 0, 30).Draw(t, "qbytes"))
	case 2:
		return rapid.SampledFrom([]string{"", " ", "\x00", "a\x00", "a", "ab", "\xff\xfe", strings.Repeat("a ", 500), strings.Repeat("find ", 200), "the to a", "k̇", "K", "ab\x00cd", "kkk", "k", "\u212a\u212a", "ss", "i", "aa", "find"}).Draw(t, "qh")
	default:
		if len(cmds) > 0 {
			q, _ := gen.Query(t, cmds, nil)
			if rapid.IntRange(0, 5).Draw(t, "nul-suffix") == 0 {
				q += "\x00"
			}
			return q
		}
		return gen.Text(0, 4).Draw(t, "qt")
	}
}

func c10Options(t *rapid.T) database.SearchOptions {
	o := gen.Options(t, gen.OptSpec{N: 5})
	switch rapid.IntRange(0, 5).Draw(t, "extreme") {
	case 0:
		o.Limit = rapid.SampledFrom([]int{math.MaxInt, math.MinInt, 1 << 62, 1 << 40, -1 << 40, math.MaxInt32, math.MaxInt / 3, math.MaxInt/3 + 1}).Draw(t, "xlimit")
	case 1:
		o.TopTermsCap = rapid.SampledFrom([]int{math.MaxInt, math.MinInt, -1, 1 << 40}).Draw(t, "xcap")
	case 2:
		o.FuzzyThreshold = rapid.SampledFrom([]int{math.MaxInt, math.MinInt, -1 << 40}).Draw(t, "xthr")
		o.PipelineBoost = rapid.SampledFrom([]float64{math.Inf(1), math.NaN(), -1, 1e308, math.SmallestNonzeroFloat64}).Draw(t, "xpb")
	case 3:
		o.ContextBoosts = map[string]float64{"find": rapid.SampledFrom([]float64{math.Inf(1), math.NaN(), -3, 0, 1e308}).Draw(t, "xboost"), "": 2}
		o.Platforms = []string{"", "\x00", strings.Repeat("x", 1000)}
	}
	return o
}

// c10Exercise runs every entry point on the loaded database; panics are returned.
func c10Exercise(db *database.Database, q string, o database.SearchOptions) (perr any) {
	defer func() {
		if r := recover(); r != nil {
			perr = r
		}
	}()
	db.SearchUniversal(q, o)
	db.Search(q, o.Limit)
	db.SearchWithPipelineOptions(q, o)
	// the older entry points are still exported: "every search entry point"
	db.SearchWithOptions(q, o)
	db.SearchWithFuzzy(q, o)
	db.SearchWithNLP(q, o)
	nlpOn := o
	nlpOn.UseNLP = true
	db.SearchWithNLP(q, nlpOn)
	c := database.NewCachedDatabase(db)
	c.SearchWithOptionsAndCache(q, o)
	c.SearchWithOptionsAndCache(q, o)
	c.SearchWithCache(q, o.Limit)
	c.SearchWithPipelineOptionsAndCache(q, o)
	c.SearchWithFuzzyAndCache(q, o)
	m := database.NewMonitoredDatabase(db)
	m.SearchWithOptionsAndMonitoring(q, o)
	m.SearchWithMonitoring(q, o.Limit)
	m.ProfileSearchMemory(q)
	db.GetSuggestions(q, o.Limit)
	// long-lived engines that are given other content between searches: held a longer list (this one
	// plus entries that spell the query) and are given this one, or held half of it and are given all
	fz := o
	fz.UseFuzzy = true
	longer := append(cloneCmds(db.Commands), database.Command{Command: q + " extra"}, database.Command{Command: "x", Description: q}, database.Command{Command: strings.ToUpper(q)})
	for _, pair := range [][2][]database.Command{{longer, cloneCmds(db.Commands)}, {cloneCmds(db.Commands[:len(db.Commands)/2]), cloneCmds(db.Commands)}} {
		ask := func(d *database.Database) {
			d.SearchUniversal(q, fz)
			d.SearchWithFuzzy(q, fz)
			d.SearchWithNLP(q, fz)
			d.SearchWithPipelineOptions(q, fz)
			d.GetSuggestions(q, 3)
		}
		c2 := database.NewCachedDatabase(&database.Database{Commands: pair[0]})
		ask(c2.Database)
		c2.SearchWithOptionsAndCache(q, fz)
		c2.UpdateDatabase(pair[1])
		ask(c2.Database)
		c2.SearchWithOptionsAndCache(q, fz)
		m2 := database.NewMonitoredDatabase(&database.Database{Commands: cloneCmds(pair[0])})
		ask(m2.Database)
		m2.SearchWithOptionsAndMonitoring(q, fz)
		m2.LoadDatabaseWithMonitoring(cloneCmds(pair[1]))
		ask(m2.Database)
		m2.SearchWithOptionsAndMonitoring(q, fz)
	}
	saved := os.Stdout
	os.Stdout = devNull
	recovery.NewSearchRecovery().RecoverFromSearchFailure(q, nil, db)
	os.Stdout = saved
	return nil
}

// c10Case is the whole oracle for one (file content, query, options); "" when it holds.
func c10Case(data []byte, q string, o database.SearchOptions) (msg string, loaded bool) {
	c10Calibrate()
	if c10CalErr != "" {
		return c10CalErr, false
	}
	path := gen.TempPath(".yml")
	if err := os.WriteFile(path, data, 0o644); err != nil {
		return "harness: " + err.Error(), false
	}
	defer os.Remove(path)
	type loadRes struct {
		db  *database.Database
		err error
		p   any
	}
	ch := make(chan loadRes, 1)
	go func() {
		var r loadRes
		defer func() {
			if x := recover(); x != nil {
				r.p = x
			}
			ch <- r
		}()
		r.db, r.err = database.LoadDatabase(path)
	}()
	var lr loadRes
	select {
	case lr = <-ch:
	case <-time.After(c10Watchdog):
		return fmt.Sprintf("LoadDatabase did not return within %v on %d bytes", c10Watchdog, len(data)), false
	}
	if lr.p != nil {
		return fmt.Sprintf("LoadDatabase panicked: %v", lr.p), false
	}
	var want []database.Command
	decErr := yaml.Unmarshal(data, &want)
	if decErr != nil {
		if lr.err == nil {
			return "content that does not decode as a list of command entries was loaded without error", false
		}
		if errors.Is(lr.err, fs.ErrNotExist) || errors.Is(lr.err, fs.ErrPermission) || errKind(lr.err) != c10KindParse {
			return fmt.Sprintf("undecodable content is not reported as a parse error but as %q (%v)", errKind(lr.err), clip(lr.err.Error())), false
		}
		return "", false
	}
	if lr.err != nil {
		return fmt.Sprintf("a well-formed list of %d entries was rejected: %v", len(want), clip(lr.err.Error())), false
	}
	if lr.db == nil || len(lr.db.Commands) != len(want) {
		return fmt.Sprintf("well-formed list of %d entries loaded as %d", len(want), lr.db.Size()), false
	}
	for i := range want {
		g, w := lr.db.Commands[i], want[i]
		if g.Command != w.Command || g.Description != w.Description || !reflect.DeepEqual(g.Keywords, w.Keywords) || !reflect.DeepEqual(g.Tags, w.Tags) || g.Niche != w.Niche || !reflect.DeepEqual(g.Platform, w.Platform) || g.Pipeline != w.Pipeline {
			return fmt.Sprintf("entry %d loaded as %+v, file says %+v", i, gen.Brief(g), gen.Brief(w)), false
		}
	}
	done := make(chan any, 1)
	go func() { done <- c10Exercise(lr.db, q, o) }()
	select {
	case p := <-done:
		if p != nil {
			return fmt.Sprintf("search panicked: %v", p), true
		}
	case <-time.After(c10Watchdog):
		return fmt.Sprintf("searching did not return within %v (%d entries, query of %d bytes)", c10Watchdog, len(want), len(q)), true
	}
	return "", true
}

func TestC10_Totality(t *testing.T) {
	rec := stat.For("C10")
	rec.Rule("file content: YAML entry lists with hostile scalars (NUL/ESC via escapes, !!binary, 5-16 KiB strings, numbers/bools/null/maps/sequences where strings are expected, anchors and aliases, duplicate keys, tabs, BOM, multi-document), harness-emitted well-formed lists with NUL / invalid UTF-8 fields, damaged YAML (truncation, byte flips, junk insertion), binary, odd shapes; queries incl. NUL, invalid UTF-8, 1000-byte strings; options incl. MaxInt/MinInt limits and caps, NaN/Inf boosts. Each case: write file, LoadDatabase, and on success every search entry point, suggestions, the recovery search, and the same searches on cached and monitored engines before and after they are given this content in place of a longer or a shorter list, under a 60 s watchdog. Oracle: no panic, no hang; missing => not-found; undecodable (independent yaml decode fails) => parse error (wording-independent error signature calibrated at run time); decodable => loads with equal entries. Non-trivial = the file loaded and searches ran, or it was rejected as a parse error.")
	rec.RequireShare("loaded", 0.35)
	rec.RequireShare("rejected", 0.15)
	rapid.Check(t, func(t *rapid.T) {
		data, kind := c10Doc(t)
		var probe []database.Command
		_ = yaml.Unmarshal(data, &probe)
		q := c10Query(t, probe)
		o := c10Options(t)
		msg, loaded := c10Case(data, q, o)
		if msg != "" {
			saveCase("C10", "totality", map[string]any{"test": "TestC10_Replay", "data": data, "query": []byte(q), "options": o})
			t.Fatalf("%s\n file (%d bytes, kind %s):\n%s\n query=%+q options=%v", msg, len(data), kind, clip(string(data)), clip(q), optBrief(o))
		}
		labels := []string{"doc:" + kind}
		if loaded {
			labels = append(labels, "loaded")
		} else {
			labels = append(labels, "rejected")
		}
		if strings.ContainsRune(q, 0) {
			labels = append(labels, "query-has-nul")
		}
		rec.Case(true, map[string]any{"doc_kind": kind, "file": clip(string(data)), "query": clip(q), "options": optBrief(o), "loaded": loaded}, labels...)
	})
}

func TestC10_Missing(t *testing.T) {
	c10Calibrate()
	if c10CalErr != "" {
		t.Fatalf("%s", c10CalErr)
	}
	rec := stat.For("C10")
	dir := mkdirWork("c10m-")
	defer os.RemoveAll(dir)
	// path names that quote the wording of other error classes: the class follows the cause, not the text
	for _, d := range []string{"unmarshal-fixtures", "yaml: v2", "yaml:", "permission denied", "is a directory", "cannot unmarshal !!str", "line 1: did not find expected key"} {
		os.MkdirAll(filepath.Join(dir, d), 0o755)
	}
	for i, p := range []string{dir + "/nope.yml", dir + "/a/b/c.yml", dir + "/" + strings.Repeat("x", 200) + ".yml", dir + "/K.yml",
		dir + "/unmarshal-fixtures/db.yml", dir + "/yaml: v2/db.yml", dir + "/yaml:/commands.yml", dir + "/permission denied/db.yml", dir + "/is a directory/x.yml",
		dir + "/cannot unmarshal !!str/db.yml", dir + "/line 1: did not find expected key/db.yml", dir + "/yaml: unmarshal errors.yml", dir + "/nope/yaml: line 3.yml"} {
		_, err := database.LoadDatabase(p)
		if err == nil || !errors.Is(err, fs.ErrNotExist) || errKind(err) != c10KindMissing {
			t.Fatalf("missing file %q reported as %v (kind %q), want not-found", p, err, errKind(err))
		}
		rec.Case(true, map[string]any{"missing_path": i}, "missing")
	}
}

// TestC10_Replay re-runs a saved case.
func TestC10_Replay(t *testing.T) {
	var c struct {
		Data    []byte
		Query   []byte
		Options database.SearchOptions
	}
	if !replayCase("C10", "totality", &c) {
		t.Skip("no replay case")
	}
	if msg, _ := c10Case(c.Data, string(c.Query), c.Options); msg != "" {
		t.Fatalf("%s", msg)
	}
}
