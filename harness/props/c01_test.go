package props

import (
	"fmt"
	"math"
	"os"
	"path/filepath"
	"sort"
	"strconv"
	"strings"
	"sync"
	"testing"

	"github.com/Vedant9500/WTF/internal/database"
	"github.com/Vedant9500/WTF/internal/embedding"
	"github.com/Vedant9500/WTF/internal/recovery"
	"github.com/Vedant9500/WTF/verifharness/gen"
	"github.com/Vedant9500/WTF/verifharness/proc"
	"github.com/Vedant9500/WTF/verifharness/ref"
	"github.com/Vedant9500/WTF/verifharness/stat"
	"pgregory.net/rapid"
)

// C01 — search returns a bounded, ranked, duplicate-free list of real entries.

// allMatching builds n entries that all match the query "alpha".
func allMatching(n int) []database.Command {
	out := make([]database.Command, n)
	for i := range out {
		out[i] = database.Command{Command: fmt.Sprintf("alpha tool%d | sort", i), Description: "alpha beta", Keywords: []string{"alpha"}, Pipeline: true}
	}
	return out
}

type c01Entry struct {
	name string
	call func(db *database.Database, q string, o database.SearchOptions) [][]database.SearchResult // one list per call made
}

var c01Entries = []c01Entry{
	{"universal", func(db *database.Database, q string, o database.SearchOptions) [][]database.SearchResult {
		return [][]database.SearchResult{db.SearchUniversal(q, o)}
	}},
	{"search", func(db *database.Database, q string, o database.SearchOptions) [][]database.SearchResult {
		return [][]database.SearchResult{db.Search(q, o.Limit)}
	}},
	{"pipeline", func(db *database.Database, q string, o database.SearchOptions) [][]database.SearchResult {
		return [][]database.SearchResult{db.SearchWithPipelineOptions(q, o)}
	}},
	{"cached", func(db *database.Database, q string, o database.SearchOptions) [][]database.SearchResult {
		c := database.NewCachedDatabase(db)
		return [][]database.SearchResult{c.SearchWithOptionsAndCache(q, o), c.SearchWithOptionsAndCache(q, o)}
	}},
	{"cached-simple", func(db *database.Database, q string, o database.SearchOptions) [][]database.SearchResult {
		c := database.NewCachedDatabase(db)
		return [][]database.SearchResult{c.SearchWithCache(q, o.Limit), c.SearchWithCache(q, o.Limit)}
	}},
	{"monitored", func(db *database.Database, q string, o database.SearchOptions) [][]database.SearchResult {
		m := database.NewMonitoredDatabase(db)
		return [][]database.SearchResult{m.SearchWithOptionsAndMonitoring(q, o), m.SearchWithOptionsAndMonitoring(q, o)}
	}},
	{"monitored-simple", func(db *database.Database, q string, o database.SearchOptions) [][]database.SearchResult {
		m := database.NewMonitoredDatabase(db)
		return [][]database.SearchResult{m.SearchWithMonitoring(q, o.Limit), m.SearchWithMonitoring(q, o.Limit)}
	}},
	// entry points the cache layer wraps: the fuzzy search and the cached pipeline / fuzzy searches
	{"fuzzy-search", func(db *database.Database, q string, o database.SearchOptions) [][]database.SearchResult {
		return [][]database.SearchResult{db.SearchWithFuzzy(q, o)}
	}},
	{"cached-pipeline", func(db *database.Database, q string, o database.SearchOptions) [][]database.SearchResult {
		c := database.NewCachedDatabase(db)
		return [][]database.SearchResult{c.SearchWithPipelineOptionsAndCache(q, o), c.SearchWithPipelineOptionsAndCache(q, o)}
	}},
	{"cached-fuzzy", func(db *database.Database, q string, o database.SearchOptions) [][]database.SearchResult {
		c := database.NewCachedDatabase(db)
		return [][]database.SearchResult{c.SearchWithFuzzyAndCache(q, o), c.SearchWithFuzzyAndCache(q, o)}
	}},
	// one cached database asked the same query under a series of limits: every answer must respect ITS limit
	{"cached-limit-series", func(db *database.Database, q string, o database.SearchOptions) [][]database.SearchResult {
		return nil // handled specially (needs per-call limits)
	}},
	// a cached database that lived through cache switches and a database replacement:
	// the answer must consist of entries of the database searched NOW
	{"cached-history", func(db *database.Database, q string, o database.SearchOptions) [][]database.SearchResult {
		return nil // handled specially (replaces the database)
	}},
	// the CLI's flow: universal search, then the last-resort recovery search bounded by the limit
	{"cli-recovery", func(db *database.Database, q string, o database.SearchOptions) [][]database.SearchResult {
		res := db.SearchUniversal(q, o)
		if len(res) == 0 {
			saved := os.Stdout
			os.Stdout = devNull
			rec, err := recovery.NewSearchRecovery().RecoverFromSearchFailure(q, nil, db)
			os.Stdout = saved
			if err == nil && len(rec) > 0 {
				res = rec
				lim := o.Limit
				if lim <= 0 {
					lim = 10
				}
				if len(res) > lim {
					res = res[:lim]
				}
				sort.SliceStable(res, func(i, j int) bool { return res[i].Score > res[j].Score })
			}
		}
		return [][]database.SearchResult{res}
	}},
}

var (
	c01DefOnce sync.Once
	c01Default = map[string]int{}
	c01DefErr  string
)

// calibrateDefaults measures the default limit of each entry point on a 150-entry
// all-matching database (Limit 0 and -1 must agree, and lie in [1,100]).
func calibrateDefaults() {
	c01DefOnce.Do(func() {
		db := gen.Load(fatalPanic{}, allMatching(150))
		for _, e := range c01Entries {
			if e.name == "cached-limit-series" || e.name == "cached-history" {
				continue
			}
			base := database.SearchOptions{AllPlatforms: true}
			n0 := len(e.call(db, "alpha", withLimit(base, 0))[0])
			n1 := len(e.call(db, "alpha", withLimit(base, -1))[0])
			if n0 != n1 || n0 < 1 || n0 > 100 {
				c01DefErr = fmt.Sprintf("entry point %s: Limit=0 returned %d and Limit=-1 returned %d of 150 matching entries: no default limit in [1,100] in force", e.name, n0, n1)
				return
			}
			c01Default[e.name] = n0
		}
	})
}

func withLimit(o database.SearchOptions, l int) database.SearchOptions { o.Limit = l; return o }

type fatalPanic struct{}

func (fatalPanic) Fatalf(f string, a ...any) { panic(fmt.Sprintf(f, a...)) }

// validList checks the validity predicate of C01; returns "" when it holds.
func validList(db *database.Database, res []database.SearchResult, limit int) string {
	if len(res) > limit {
		return fmt.Sprintf("%d results exceed the limit in force %d", len(res), limit)
	}
	seen := map[int]bool{}
	for i, r := range res {
		if r.Command == nil {
			return fmt.Sprintf("result %d has a nil command", i)
		}
		idx := gen.IndexOf(db, r.Command)
		if idx < 0 {
			return fmt.Sprintf("result %d (%q) is not an entry of the searched database", i, r.Command.Command)
		}
		if seen[idx] {
			return fmt.Sprintf("entry #%d (%q) appears twice", idx, r.Command.Command)
		}
		seen[idx] = true
		if math.IsNaN(r.Score) || math.IsInf(r.Score, 0) || r.Score < 0 {
			return fmt.Sprintf("result %d has score %v (must be finite and non-negative)", i, r.Score)
		}
		if i > 0 && res[i-1].Score < r.Score {
			return fmt.Sprintf("scores not in non-increasing order at %d: %v then %v", i, res[i-1].Score, r.Score)
		}
	}
	return ""
}

func c01Engine(useShipped bool) func(t *rapid.T) {
	rec := stat.For("C01")
	rec.Rule("database class x query class x full option product x entry point (SearchUniversal, Search, SearchWithPipelineOptions, cached twice, monitored twice; built binary separately). Oracle: len<=limit in force (default calibrated per entry point), every result points into db.Commands, no index twice, scores finite >=0 and non-increasing. Non-trivial = >=2 results or result count equals the limit (truncation exercised).")
	return func(t *rapid.T) {
		calibrateDefaults()
		if c01DefErr != "" {
			t.Fatalf("%s", c01DefErr)
		}
		var db *database.Database
		var cmds []database.Command
		var cls gen.DBClass
		withEmb := false
		if useShipped {
			var err error
			db, err = shipped()
			if err != nil {
				t.Fatalf("shipped database does not load: %v", err)
			}
			cmds, cls = db.Commands, "shipped"
		} else {
			o := gen.CmdOpts{Platforms: true, Unicode: rapid.IntRange(0, 3).Draw(t, "unicode-db") == 0, Sized: true, Long: true, Heavy: true}
			cmds, cls = gen.DB(t, o, nil)
			db = gen.Load(t, cmds)
			if len(cmds) > 0 && len(cmds) <= 60 && rapid.IntRange(0, 2).Draw(t, "embeddings") == 0 {
				// the optional semantic stage is part of every search once an index is attached
				database.VerifSetEmbeddingIndex(db, drawEmbeddingIndex(t, cmds))
				withEmb = true
			}
			warmUp(t, db, cmds)
		}
		alignedWord := ""
		if !useShipped && rapid.IntRange(0, 11).Draw(t, "aligned-embeddings") == 0 {
			// near-ties at the semantic stage: copies of one entry (equal lexical scores) whose embeddings
			// are the query word's own vector tilted by 0 .. 3e-4 of its length, so the similarities
			// differ in the 9th-12th decimal place and the final order hangs on exact comparison
			word := rapid.SampledFrom([]string{"zorvex", "plinth", "quark"}).Draw(t, "aligned-word")
			n := rapid.IntRange(2, 6).Draw(t, "aligned-copies")
			cmds = nil
			for i := 0; i < n; i++ {
				cmds = append(cmds, database.Command{Command: word + " sync", Description: "keeps things in step", Niche: fmt.Sprintf("n%d", i)})
			}
			cmds = append(cmds, database.Command{Command: "other tool", Description: "unrelated " + word})
			cls = "aligned-ties"
			db = gen.Load(t, cmds)
			dim := 8
			v := rapid.SliceOfN(rapid.Float32Range(0.2, 1), dim, dim).Draw(t, "aligned-vec")
			idx := &embedding.Index{Dimension: dim, WordVectors: map[string][]float32{word: v}}
			for range cmds {
				e := append([]float32(nil), v...)
				tilt := rapid.SampledFrom([]float32{0, 1e-5, 3e-5, 1e-4, 3e-4, -1e-4}).Draw(t, "tilt")
				j := rapid.IntRange(0, dim-2).Draw(t, "tilt-axis")
				e[j] += tilt * v[j+1] // not along v: the cosine changes only in second order
				e[j+1] -= tilt * v[j]
				idx.CmdEmbeddings = append(idx.CmdEmbeddings, e)
			}
			database.VerifSetEmbeddingIndex(db, idx)
			withEmb, alignedWord = true, word
		}
		var nearBoosts map[string]float64
		if !useShipped && alignedWord == "" && rapid.IntRange(0, 11).Draw(t, "lexical-near-ties") == 0 {
			// near-ties at the lexical stage: entries of one shape, each with a word of its own, asked for
			// together; per-word weights of 1 + k*1e-9 put the scores a few 1e-9 apart, in any order
			ws := rapid.SliceOfNDistinct(rapid.SampledFrom([]string{"zorvex", "plinth", "quarn", "vexil", "drumlin", "sporran", "tallow", "wicket"}), 2, 6, func(s string) string { return s }).Draw(t, "near-tie-words")
			cmds, nearBoosts = nil, map[string]float64{}
			for _, w := range ws {
				cmds = append(cmds, database.Command{Command: w + " sync", Description: "keeps things in step"})
				nearBoosts[w] = 1 + float64(rapid.SampledFrom([]int{0, 1, 2, 3, 10, 100, 1000}).Draw(t, "near-tie-k"))*1e-9
			}
			cmds = append(cmds, database.Command{Command: "other tool", Description: "unrelated"})
			cls = "lexical-near-ties"
			db = gen.Load(t, cmds)
			withEmb = false
			alignedWord = strings.Join(ws, " ")
		}
		var q string
		var qcls gen.QueryClass
		if useShipped {
			q, qcls = gen.Query(t, cmds[:200], nil)
		} else {
			q, qcls = gen.Query(t, cmds, []gen.QueryClass{"vocab", "vocab", "nlp", "stop", "punct", "one", "long", "typo", "typo", "fragment", "fragment", "mixed", "unicode", "arbitrary"})
		}
		opt := gen.Options(t, gen.OptSpec{N: len(cmds)})
		if useShipped && opt.Limit > 1000 {
			opt.Limit = 1000
		}
		if alignedWord != "" {
			q, qcls = alignedWord, "aligned-word"
			opt.ContextBoosts, opt.PipelineOnly = nil, false
			opt.AllPlatforms = true
			if nearBoosts != nil {
				q, qcls = alignedWord, "near-tie-words"
				opt.ContextBoosts, opt.UseNLP, opt.UseFuzzy = nearBoosts, false, false
			}
		}
		if alignedWord == "" && rapid.IntRange(0, 3).Draw(t, "boost-on-query-word") == 0 {
			// a weight - negative, zero, NaN, tiny or large, but finite or NaN (an infinite weight is outside what any
			// producer of boosts emits, and the engine passes it on) - on a word the query really contains
			if qt := ref.Tokenize(q); len(qt) > 0 {
				b := map[string]float64{}
				for k, v := range opt.ContextBoosts {
					b[k] = v
				}
				b[rapid.SampledFrom(qt).Draw(t, "boosted-query-word")] = rapid.SampledFrom([]float64{-2, math.NaN(), 0, 5e-324, 1e6, 3, -1e-300, 0.5}).Draw(t, "query-word-weight")
				opt.ContextBoosts = b
			}
		}
		e := rapid.SampledFrom(c01Entries).Draw(t, "entry")
		if alignedWord != "" {
			e = c01Entries[rapid.SampledFrom([]int{0, 0, 3, 5}).Draw(t, "aligned-entry")] // universal / cached / monitored
		}
		if useShipped && e.name == "cached-history" {
			e = c01Entries[3] // the shared shipped database must not be replaced: plain cached path instead
		}
		if e.name == "cli-recovery" && !useShipped && rapid.Bool().Draw(t, "recovery-query") {
			// a nonsense word plus 1-3 fragments of database words: only the recovery search answers
			toks := gen.Tokens(cmds)
			if len(toks) > 0 {
				q = "zzqxj"
				for i := rapid.IntRange(1, 3).Draw(t, "frags"); i > 0; i-- {
					w := rapid.SampledFrom(toks).Draw(t, "frag-word")
					a := rapid.IntRange(0, len(w)-2).Draw(t, "frag-from")
					q += " " + w[a:a+rapid.IntRange(2, len(w)-a).Draw(t, "frag-len")]
				}
				qcls = "recovery-fragments"
			}
		}
		if !useShipped && alignedWord == "" && !strings.HasPrefix(e.name, "cli") && rapid.IntRange(0, 14).Draw(t, "one-word-many-times") == 0 {
			// a held-down key or a pasted log line: one word (of the database, or one the language stage
			// reacts to) repeated up to thousands of times; the programmatic entry points take any length
			w := rapid.SampledFrom(append([]string{"find", "list", "file", "directory", "compress", "show"}, gen.Tokens(cmds)...)).Draw(t, "repeated-word")
			q, qcls = strings.Repeat(w+" ", rapid.SampledFrom([]int{40, 300, 1200, 4000}).Draw(t, "repeats")), "one-word-many-times"
		}
		limit := opt.Limit
		if limit <= 0 {
			limit = c01Default[e.name]
		}
		labels := []string{"db:" + string(cls), "q:" + string(qcls), "entry:" + e.name}
		nontrivial := false
		if e.name == "cached-history" {
			m := database.NewMonitoredDatabase(db)
			cur := db
			limit := opt.Limit
			if limit <= 0 {
				limit = c01Default["cached"]
			}
			var ops []string
			if rapid.Bool().Draw(t, "bracketed-update") {
				// a replacement while the cache is switched off, then back on
				ops = []string{"search", "disable", "update", "enable", "search"}
				if rapid.Bool().Draw(t, "extra-search") {
					ops = append([]string{"search"}, ops...)
				}
			} else {
				ops = append(rapid.SliceOfN(rapid.SampledFrom([]string{"search", "search", "enable", "disable", "update", "invalidate"}), 1, 6).Draw(t, "history-ops"), "search")
			}
			for _, op := range ops {
				switch op {
				case "search":
					res := m.SearchWithOptionsAndCache(q, opt)
					if msg := validList(m.Database, res, limit); msg != "" {
						t.Fatalf("%s (cached database after a history of cache switches / replacements; query=%q options=%v)\ncurrent db=%v", msg, q, optBrief(opt), gen.BriefDB(m.Database.Commands, 12))
					}
					if len(res) >= 2 {
						nontrivial = true
					}
				case "enable":
					m.EnableCache(true)
				case "disable":
					m.EnableCache(false)
				case "invalidate":
					m.InvalidateCache()
				case "update":
					// replace by a database that shares the query's words, so stale answers are plausible
					next, _ := gen.DB(t, gen.CmdOpts{Platforms: true}, []int{0, 1, 2, 6, 0})
					next = append(next, cmds[:min(len(cmds), 2)]...)
					m.UpdateDatabase(gen.Load(t, next).Commands)
					cur = m.Database
				}
			}
			_ = cur
			rec.Case(nontrivial, map[string]any{"db_class": cls, "db_size": len(cmds), "query": q, "options": optBrief(opt), "entry": e.name}, append(labels, "cache-hit-path")...)
			return
		}
		if e.name == "cached-limit-series" {
			m := database.NewMonitoredDatabase(db)
			// "no limit" next to the defaults other layers use (5, 10), in both orders, then anything
			series := rapid.Permutation([]int{0, 5, -1, 10}).Draw(t, "series-start")[:rapid.IntRange(2, 4).Draw(t, "series-start-len")]
			for i := rapid.IntRange(0, 3).Draw(t, "series-len"); i > 0; i-- {
				series = append(series, rapid.SampledFrom([]int{0, -1, 1, 2, 3, 5, 10, 100}).Draw(t, "series-limit"))
			}
			if !useShipped && len(cmds) >= 7 && rapid.Bool().Draw(t, "series-common-word") {
				// a word that many entries share, so that the limits actually cut
				docs, best, bestN := ref.Index(cmds), "", 0
				for _, w := range gen.Tokens(cmds) {
					n := 0
					for i := range docs {
						if docs[i].Has(w) {
							n++
						}
					}
					if n > bestN {
						best, bestN = w, n
					}
				}
				if bestN > 5 {
					q = best
				}
			}
			for _, lim := range series {
				so := opt
				so.Limit = lim
				sl := so.Limit
				if sl <= 0 {
					sl = c01Default["cached"]
				}
				var res []database.SearchResult
				if rapid.Bool().Draw(t, "series-monitored") {
					res = m.SearchWithOptionsAndMonitoring(q, so)
				} else {
					res = m.SearchWithOptionsAndCache(q, so)
				}
				if msg := validList(db, res, sl); msg != "" {
					t.Fatalf("%s (cached database, series of limits, this call Limit=%d; query=%q options=%v)\ndb=%v", msg, so.Limit, q, optBrief(so), gen.BriefDB(cmds, 12))
				}
				if len(res) >= 2 || len(res) == sl {
					nontrivial = true
				}
			}
			rec.Case(nontrivial, map[string]any{"db_class": cls, "db_size": len(cmds), "query": q, "options": optBrief(opt), "entry": e.name}, append(labels, "cache-hit-path")...)
			return
		}
		lists := e.call(db, q, opt)
		for ci, res := range lists {
			if msg := validList(db, res, limit); msg != "" {
				t.Fatalf("%s (entry=%s call=%d query=%q options=%v)\ndb=%v", msg, e.name, ci, q, optBrief(opt), gen.BriefDB(cmds, 12))
			}
			if len(res) >= 2 || len(res) == limit {
				nontrivial = true
			}
		}
		if len(lists) > 1 {
			labels = append(labels, "cache-hit-path")
		}
		if opt.Limit <= 0 {
			labels = append(labels, "limit<=0")
		}
		if cls == "tie" {
			labels = append(labels, "tie-heavy")
		}
		if e.name != "pipeline" && opt.UseFuzzy && len(lists[0]) > 0 {
			off := opt
			off.UseFuzzy = false
			if len(db.SearchUniversal(q, off)) == 0 {
				labels = append(labels, "fuzzy-fallback")
			}
		}
		if opt.UseNLP && e.name != "pipeline" && e.name != "search" {
			labels = append(labels, "nlp")
		}
		if len(lists[0]) == limit {
			labels = append(labels, "at-limit")
		}
		if withEmb {
			labels = append(labels, "embedding-index-attached")
		}
		n := len(cmds)
		if useShipped {
			cmds = nil
		}
		rec.Case(nontrivial, map[string]any{"db_class": cls, "db_size": n, "db": gen.BriefDB(cmds, 6), "query": q, "options": optBrief(opt), "entry": e.name, "results": len(lists[0])}, labels...)
	}
}

func TestC01_Engine(t *testing.T) {
	r := stat.For("C01")
	r.RequireShare("fuzzy-fallback", 0.025)
	r.RequireShare("cache-hit-path", 0.05)
	r.RequireShare("limit<=0", 0.10)
	r.RequireShare("tie-heavy", 0.10)
	rapid.Check(t, c01Engine(false))
}

func TestC01_Shipped(t *testing.T) {
	rapid.Check(t, c01Engine(true))
}

// ---- built binary -----------------------------------------------------------------------

var (
	c01CLIOnce    sync.Once
	c01CLIDefault = map[string]int{}
	c01CLIErr     string
)

func cliCount(res proc.Result, format string) (int, error) {
	if format == "json" {
		if !strings.Contains(res.Stdout, "\n[") && !strings.HasPrefix(res.Stdout, "[") {
			return 0, nil // no results block printed
		}
		items, err := parseJSONBlock(res.Stdout)
		return len(items), err
	}
	return len(parseList(res.Stdout)), nil
}

func c01CalibrateCLI(t *rapid.T) {
	c01CLIOnce.Do(func() {
		dir := mkdirWork("c01cal-")
		defer os.RemoveAll(dir)
		h, _ := proc.NewHome(dir)
		dbp := filepath.Join(dir, "db.yml")
		os.WriteFile(dbp, gen.EmitYAML(allMatching(150)), 0o644)
		for _, sub := range []string{"", "search", "pipeline"} {
			args := []string{}
			if sub != "" {
				args = append(args, sub)
			}
			args = append(args, "--no-color", "-d", dbp, "alpha")
			res := runWtf(h, dir, args)
			n, _ := cliCount(res, "list")
			if n < 1 || n > 100 {
				c01CLIErr = fmt.Sprintf("`wtf %s alpha` without --limit printed %d of 150 matching entries: no default limit in [1,100] in force\n%s", sub, n, res.Stdout)
				return
			}
			c01CLIDefault[sub] = n
		}
	})
	if c01CLIErr != "" {
		t.Fatalf("%s", c01CLIErr)
	}
}

// asciiWord draws words that survive ValidateQuery unchanged and carry no newline.
func plainCmdOpts() gen.CmdOpts { return gen.CmdOpts{Platforms: true} }

func TestC01_CLI(t *testing.T) {
	needWtf(t)
	rec := stat.For("C01")
	rapid.Check(t, func(t *rapid.T) {
		c01CalibrateCLI(t)
		cmds, cls := gen.DB(t, plainCmdOpts(), []int{0, 1, 4, 6, 1})
		dir := mkdirWork("c01cli-")
		defer os.RemoveAll(dir)
		h, _ := proc.NewHome(dir)
		dbp := filepath.Join(dir, "db.yml")
		os.WriteFile(dbp, gen.EmitYAML(cmds), 0o644)
		toks := gen.Tokens(cmds)
		if len(toks) == 0 {
			toks = []string{"alpha"}
		}
		kind := rapid.SampledFrom([]string{"vocab", "vocab", "typo", "recovery", "recovery", "fragment"}).Draw(t, "cli-q")
		var q string
		switch kind {
		case "vocab":
			q = gen.TextOf(rapid.SampledFrom(toks), 1, 3).Draw(t, "q")
		case "typo":
			q = gen.Typo(t, rapid.SampledFrom(toks).Draw(t, "w"))
		case "recovery":
			w := rapid.SampledFrom(toks).Draw(t, "w")
			q = "zzqxj " + w[:2] // nonsense word + fragments: only the last-resort search can answer
			if rapid.Bool().Draw(t, "two-frags") {
				w2 := rapid.SampledFrom(toks).Draw(t, "w2")
				q += " " + w2[len(w2)-2:] + " " + w[1:]
			}
		default:
			w := rapid.SampledFrom(toks).Draw(t, "w")
			q = w[:rapid.IntRange(1, len(w)).Draw(t, "n")]
		}
		q = strings.Join(strings.Fields(strings.Map(func(r rune) rune {
			if r < 0x20 || r > 0x7e || strings.ContainsRune("<>|&;$", r) {
				return ' '
			}
			return r
		}, q)), " ")
		if q == "" {
			q = "alpha"
		}
		sub := rapid.SampledFrom([]string{"", "search", "pipeline"}).Draw(t, "sub")
		format := "list"
		if sub != "pipeline" && rapid.Bool().Draw(t, "json") {
			format = "json"
		}
		lim := rapid.SampledFrom([]int{0, 1, 2, 3, 5, 100}).Draw(t, "limit")
		args := []string{}
		if sub != "" {
			args = append(args, sub)
		}
		args = append(args, "--no-color", "-d", dbp, "--format", format)
		if rapid.Bool().Draw(t, "all-platforms") {
			args = append(args, "--all-platforms")
		}
		inForce := c01CLIDefault[sub]
		if lim > 0 {
			args = append(args, "--limit", strconv.Itoa(lim))
			inForce = lim
		}
		args = append(args, "--", q)
		res := runWtf(h, dir, args)
		if res.Panicked() || res.TimedOut || res.Signaled {
			t.Fatalf("wtf %q crashed: %+v", args, res)
		}
		n, err := cliCount(res, format)
		if err != nil {
			t.Fatalf("wtf %q: %v\n%s", args, err, res.Stdout)
		}
		if n > inForce {
			t.Fatalf("wtf %q printed %d results, limit in force %d\n%s", args, n, inForce, res.Stdout)
		}
		labels := []string{"cli", "cli-q:" + kind, "cli-sub:" + sub}
		if strings.Contains(res.Stdout, "Warning: Search had issues") {
			labels = append(labels, "cli-recovery")
		}
		rec.Case(n >= 2 || n == inForce, map[string]any{"argv": args, "db_class": cls, "db": gen.BriefDB(cmds, 5), "printed": n, "limit_in_force": inForce}, labels...)
	})
}
