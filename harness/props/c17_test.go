package props

import (
	"encoding/json"
	"fmt"
	"math"
	"os"
	"path/filepath"
	"sort"
	"strconv"
	"strings"
	"testing"
	"time"

	wctx "github.com/Vedant9500/WTF/internal/context"
	"github.com/Vedant9500/WTF/internal/database"
	"github.com/Vedant9500/WTF/internal/history"
	"github.com/Vedant9500/WTF/internal/recovery"
	"github.com/Vedant9500/WTF/internal/validation"
	"github.com/Vedant9500/WTF/verifharness/gen"
	"github.com/Vedant9500/WTF/verifharness/proc"
	"github.com/Vedant9500/WTF/verifharness/stat"
	"pgregory.net/rapid"
)

// C17 — every CLI command runs, and search output matches the engine's answer.

// engineAnswer recomputes what `wtf [search]` must print, with the same packages the
// binary is built from: validate -> context of cwd -> load with fallback -> universal
// search with the CLI's options -> last-resort recovery search when empty.
func engineAnswer(cwd, dbPath, personal, rawQuery string, limitFlag int, platforms []string, allPlatforms, noCross bool) (items []cliItem, cleaned string, rejected bool) {
	cleaned, err := validation.ValidateQuery(rawQuery)
	if err != nil {
		return nil, "", true
	}
	lim, err := validation.ValidateLimit(limitFlag)
	if err != nil {
		return nil, cleaned, true
	}
	saved := os.Stdout
	os.Stdout = devNull
	defer func() { os.Stdout = saved }()
	var pc *wctx.Context
	if cwd != "" { // "" = the working directory cannot be determined: no project context
		pc, _ = wctx.NewAnalyzer().AnalyzeDirectory(cwd)
	}
	db, err := recovery.NewDatabaseRecovery(recovery.DefaultRetryConfig()).LoadDatabaseWithFallback(dbPath, personal)
	if err != nil || db == nil {
		return nil, cleaned, true
	}
	opt := database.SearchOptions{Limit: lim, UseFuzzy: true, FuzzyThreshold: -30, UseNLP: true, AllPlatforms: allPlatforms, Platforms: platforms, NoCrossPlatform: noCross}
	if pc != nil {
		opt.ContextBoosts = pc.GetContextBoosts()
	}
	res := db.SearchUniversal(cleaned, opt)
	if len(res) == 0 {
		if rec, rerr := recovery.NewSearchRecovery().RecoverFromSearchFailure(cleaned, nil, db); rerr == nil && len(rec) > 0 {
			res = rec
			if len(res) > lim {
				res = res[:lim]
			}
		}
	}
	sort.SliceStable(res, func(i, j int) bool { return res[i].Score > res[j].Score })
	for _, r := range res {
		items = append(items, cliItem{Command: r.Command.Command, Description: r.Command.Description, Category: r.Command.Niche, Keywords: r.Command.Keywords, Platforms: r.Command.Platform, Score: r.Score})
	}
	return items, cleaned, false
}

// c17Cmd draws entries whose texts are printable single-line ASCII (so every output
// format can be parsed back) and never contain ESC.
func c17DB(t *rapid.T) []database.Command {
	cmds, _ := gen.DB(t, gen.CmdOpts{Platforms: true, Long: true}, []int{1, 1, 3, 8, 0})
	for i := range cmds {
		if rapid.IntRange(0, 5).Draw(t, "hostile-text") == 0 {
			// printable single-line texts that an encoder or a post-processing step may mangle
			hostile := rapid.SampledFrom([]string{`printf '\u0026\n'`, `echo "\u003chtml\u003e"`, `a && b > f < g`, `say "quoted" and \"escaped\"`, `path C:\temp\new`, `</script><!--`, `tab\there`, `100% done %s %d`, `50% of disk%usage`, `%v %d%% %!`, `cpu at 100%all day`, `{"json": [1, 2]}`, `back\\slash\`, `&amp; &lt; &#38;`, "uni\u2028sep", `'single' "double"`, `\x1b[31mnot-an-escape`, `$(subshell) ${VAR}`}).Draw(t, "hostile")
			switch rapid.IntRange(0, 2).Draw(t, "hostile-field") {
			case 0:
				cmds[i].Command = "run " + hostile
			case 1:
				cmds[i].Description = "does " + hostile
			default:
				cmds[i].Niche = hostile
				cmds[i].Keywords = append(cmds[i].Keywords, hostile)
			}
		}
		if rapid.IntRange(0, 7).Draw(t, "sized-cell") == 0 {
			// command and category cells whose byte length and character count differ (table cells are cut at fixed widths)
			cmds[i].Command = gen.SizedText(t, true)
			if rapid.Bool().Draw(t, "sized-niche") {
				cmds[i].Niche = gen.SizedText(t, false)
			}
		}
		cmds[i].Command = strings.Join(strings.Fields(cmds[i].Command), " ")
		cmds[i].Description = strings.Join(strings.Fields(cmds[i].Description), " ")
		if cmds[i].Command == "" {
			cmds[i].Command = fmt.Sprintf("cmd%d", i)
		}
	}
	return cmds
}

// parseTable returns the body rows of the table format with the row number column removed.
func parseTable(stdout string) []string {
	var rows []string
	body := false
	for _, l := range strings.Split(stdout, "\n") {
		if strings.HasPrefix(strings.TrimLeft(l, "\x1b[0123456789;m"), "---") {
			body = true
			continue
		}
		if !body || l == "" || strings.HasPrefix(l, "Search completed") {
			continue
		}
		want := fmt.Sprintf("%-3d ", len(rows)+1)
		if strings.HasPrefix(l, want) {
			rows = append(rows, l[len(want):])
		} else {
			rows = append(rows, "?"+l) // not a row of the expected number: reported by the comparison
		}
	}
	return rows
}

// histEntries reads what the loader makes of the history file (nothing, for a file it rejects
// outright). The loader runs on a scratch copy: reading must not change the file under examination.
func histEntries(p string) []history.SearchEntry {
	b, err := os.ReadFile(p)
	if err != nil {
		return nil
	}
	scratch := gen.TempPath(".json")
	defer os.Remove(scratch)
	os.WriteFile(scratch, b, 0o644)
	sh := history.NewSearchHistory(scratch, 100)
	_ = sh.Load()
	return sh.Entries
}

func jsonRoundTrip(s string) string {
	b, _ := json.Marshal(s)
	var out string
	_ = json.Unmarshal(b, &out)
	return out
}

func TestC17_Search(t *testing.T) {
	needWtf(t)
	rec := stat.For("C17")
	rec.Rule("(A) built binary in an isolated HOME, cwd = generated directory (empty or with project marker files): --database = generated file (also missing / broken -> fallback database), query from accepted and rejected classes, --limit in {-1,0,1,3,5,100,101}, --format in {list,table,json,JSON,xml}, -v, --no-color / NO_COLOR, platform flags, invoked as `wtf q` and `wtf search q`, 1-3 searches per history. Oracle: printed (command, description) sequence equals the in-process engine answer in order, count <= limit in force; json block decodes as one object per result with the verbose fields under -v; no ESC byte under no-color; the history file gains exactly one matching newest entry (or updates the last on an immediate repeat); rejected input leaves the history untouched. Non-trivial = at least one result printed.")
	rec.RequireShare("format:json", 0.08)
	rapid.Check(t, func(t *rapid.T) {
		dir := mkdirWork("c17-")
		defer os.RemoveAll(dir)
		h, _ := proc.NewHome(dir)
		cwd := filepath.Join(dir, "cwd")
		os.Mkdir(cwd, 0o755)
		markers := rapid.SliceOfNDistinct(rapid.SampledFrom([]string{".git", "Dockerfile", "package.json", "go.mod", "Makefile", "requirements.txt"}), 0, 3, func(s string) string { return s }).Draw(t, "markers")
		for _, m := range markers {
			if m == ".git" {
				os.Mkdir(filepath.Join(cwd, m), 0o755)
			} else if m == "package.json" {
				os.WriteFile(filepath.Join(cwd, m), []byte(`{"scripts":{"build":"x","find":"y"}}`), 0o644)
			} else if m == "Makefile" {
				os.WriteFile(filepath.Join(cwd, m), []byte("build:\n\tgo build\nlist: build\n"), 0o644)
			} else {
				os.WriteFile(filepath.Join(cwd, m), []byte("x"), 0o644)
			}
		}
		cmds := c17DB(t)
		dbp := filepath.Join(dir, "db.yml")
		dbKind := rapid.SampledFrom([]string{"good", "good", "good", "good", "missing", "broken"}).Draw(t, "db-kind")
		switch dbKind {
		case "good":
			os.WriteFile(dbp, gen.EmitYAML(cmds), 0o644)
		case "broken":
			os.WriteFile(dbp, []byte("- command: [unterminated\n"), 0o644)
		}
		toks := gen.Tokens(cmds)
		if len(toks) == 0 || dbKind != "good" {
			toks = append(toks, "list", "directory", "copy", "files", "delete")
		}
		nSearch := rapid.IntRange(1, 4).Draw(t, "searches")
		// the home may already hold a history: a healthy one, one from another version, or a damaged file
		histStart := rapid.SampledFrom([]string{"absent", "absent", "absent", "healthy", "foreign-limit", "cut-off", "garbage", "wrong-types", "empty", "full", "full", "full-future", "full-mixed"}).Draw(t, "history-file")
		histMax := 100
		if strings.HasPrefix(histStart, "full") {
			// a history at its bound (2, 3 or 100 entries) - with ordinary dates, with dates a machine whose
			// clock ran ahead left behind, or with both: the next search is still the newest entry
			histMax = rapid.SampledFrom([]int{2, 3, 100}).Draw(t, "full-max")
			var ents []string
			for i := 0; i < histMax; i++ {
				year := 2024
				if histStart == "full-future" || (histStart == "full-mixed" && i%2 == 1) {
					year = 2099
				}
				ents = append(ents, fmt.Sprintf(`{"query":"stored search %d","timestamp":"%d-01-02T03:%02d:%02dZ","results_count":%d}`, i, year, i/60, i%60, i%4))
			}
			os.MkdirAll(filepath.Dir(h.History()), 0o755)
			os.WriteFile(h.History(), []byte(fmt.Sprintf(`{"entries":[%s],"max_size":%d}`, strings.Join(ents, ","), histMax)), 0o644)
		} else if histStart != "absent" {
			os.MkdirAll(filepath.Dir(h.History()), 0o755)
			healthy := `{"entries":[{"query":"older search","timestamp":"2024-01-02T03:04:05Z","results_count":2},{"query":"old search","timestamp":"2024-01-02T03:05:05Z","results_count":1,"context":"git"}],"max_size":100}`
			content := map[string]string{"healthy": healthy, "foreign-limit": strings.Replace(healthy, `"max_size":100`, `"max_size":0`, 1), "cut-off": healthy[:len(healthy)/2],
				"garbage": "\x00\x01 not json at all", "wrong-types": `{"entries":"none","max_size":"lots"}`, "empty": ""}[histStart]
			os.WriteFile(h.History(), []byte(content), 0o644)
		}
		prevHist := histEntries(h.History())
		anyResult := false
		var labels []string
		var lastArgsQ []string
		for s := 0; s < nSearch; s++ {
			var argsQ []string
			qkind := rapid.SampledFrom([]string{"vocab", "vocab", "vocab", "typo", "recovery", "padded", "split", "verb-first", "verb-first", "rejected-meta", "rejected-blank", "control", "long", "unicode", "repeat", "repeat", "repeat-recased", "repeat-recased", "question", "invalid-utf8", "long-tail", "long-tail"}).Draw(t, "qkind")
			w := rapid.SampledFrom(toks)
			switch qkind {
			case "vocab":
				argsQ = []string{gen.TextOf(w, 1, 3).Draw(t, "q")}
			case "typo":
				argsQ = []string{gen.Typo(t, w.Draw(t, "w"))}
			case "long-tail":
				// a misspelling or a fragment of the LAST word of a 300-700 byte text: only the typo fallback
				// answers, and with a match quality so low that every printed score is exactly 0
				argsQ = []string{gen.Typo(t, w.Draw(t, "w"))}
				for i := range cmds {
					if tail := gen.LongTail(&cmds[i]); len(tail) >= 3 {
						if rapid.Bool().Draw(t, "tail-typo") {
							argsQ = []string{gen.Typo(t, tail)}
						} else {
							argsQ = []string{tail[:rapid.IntRange(2, len(tail)-1).Draw(t, "tail-frag")]}
						}
						break
					}
				}
			case "recovery":
				argsQ = []string{"zzqxj " + w.Draw(t, "w")[:2]}
			case "padded":
				argsQ = []string{"  " + w.Draw(t, "w1") + " \t " + w.Draw(t, "w2") + "  "}
			case "split":
				argsQ = []string{w.Draw(t, "w1"), w.Draw(t, "w2"), "the"}
			case "verb-first":
				// the way people type: `wtf find large files` - an everyday verb first, each word its own
				// argument; none of these words names a sub-command
				argsQ = []string{rapid.SampledFrom([]string{"find", "list", "show", "get", "run", "s", "ls"}).Draw(t, "verb"), w.Draw(t, "w1")}
				if rapid.Bool().Draw(t, "verb-alone") {
					argsQ = argsQ[:1]
				}
			case "rejected-meta":
				argsQ = []string{w.Draw(t, "w") + rapid.SampledFrom([]string{" | grep", " > out", "; rm", " && x", " $HOME", "<in"}).Draw(t, "meta")}
			case "rejected-blank":
				argsQ = []string{rapid.SampledFrom([]string{" ", "\t", "  \n ", "\x01\x02"}).Draw(t, "blank")}
			case "control":
				argsQ = []string{w.Draw(t, "w1") + "\x07 " + w.Draw(t, "w2") + "\x1b[0m"}
			case "long":
				argsQ = []string{strings.Repeat(w.Draw(t, "w")+" ", rapid.IntRange(80, 400).Draw(t, "rep"))}
			case "unicode":
				argsQ = []string{gen.TextOf(gen.UWord(true), 1, 3).Draw(t, "uq") + " " + w.Draw(t, "w")}
			case "invalid-utf8": // bytes the validator lets through although they are no UTF-8
				argsQ = []string{w.Draw(t, "w") + rapid.SampledFrom([]string{"\xe6", " \xff\xfe", "\xc3", " caf\xe9", "\x80"}).Draw(t, "bad-bytes")}
			case "question":
				argsQ = []string{"how do I " + w.Draw(t, "w") + rapid.SampledFrom([]string{"?", " ?", "??", "!", " ? ?", "...", "?!"}).Draw(t, "end")}
			case "repeat-recased": // the previous query in another letter case: a different query, a new entry
				if len(prevHist) > 0 {
					pq := prevHist[len(prevHist)-1].Query
					if up := strings.ToUpper(pq); up != pq {
						argsQ = []string{up}
					} else {
						argsQ = []string{strings.ToLower(pq)}
					}
				} else {
					argsQ = []string{w.Draw(t, "w")}
				}
			default: // repeat the previous query of this history when there is one, exactly as it was typed
				if len(lastArgsQ) > 0 {
					argsQ = append([]string{}, lastArgsQ...)
				} else if len(prevHist) > 0 {
					argsQ = []string{prevHist[len(prevHist)-1].Query}
				} else {
					argsQ = []string{w.Draw(t, "w")}
				}
			}
			for i := range argsQ {
				argsQ[i] = strings.ReplaceAll(argsQ[i], "\x00", "")
				if argsQ[i] == "" {
					argsQ[i] = "x"
				}
			}
			limFlag := rapid.SampledFrom([]int{0, 0, 1, 3, 5, 100, -1, 101}).Draw(t, "limit")
			format := rapid.SampledFrom([]string{"list", "list", "json", "json", "JSON", "table", "xml"}).Draw(t, "format")
			verbose := rapid.Bool().Draw(t, "verbose")
			colorMode := rapid.SampledFrom([]string{"flag", "env", "env-empty", "color", "flag-true", "env+flag-false", "env+flag", "flag-false"}).Draw(t, "color")
			var platforms []string
			allP, noX := rapid.IntRange(0, 3).Draw(t, "allp") == 0, rapid.IntRange(0, 3).Draw(t, "nox") == 0
			for _, p := range rapid.SliceOfN(rapid.SampledFrom([]string{"linux", "windows", "macos"}), 0, 2).Draw(t, "platforms") {
				platforms = append(platforms, p)
			}
			var args []string
			if rapid.IntRange(0, 3).Draw(t, "sub") >= 2 && qkind != "verb-first" || rapid.IntRange(0, 3).Draw(t, "sub-verb-first") == 0 && qkind == "verb-first" {
				args = append(args, "search")
			}
			args = append(args, "-d", dbp, "--format", format)
			if limFlag != 0 || rapid.Bool().Draw(t, "explicit-zero") {
				args = append(args, "--limit", strconv.Itoa(limFlag))
			}
			if verbose {
				args = append(args, "-v")
			}
			var env []string
			switch colorMode {
			case "flag":
				args = append(args, "--no-color")
			case "env":
				env = append(env, "NO_COLOR=1")
			case "env-empty":
				env = append(env, "NO_COLOR=")
			case "flag-true":
				args = append(args, "--no-color=true")
			case "env+flag-false": // NO_COLOR is in the environment: no escape sequences, whatever the flag says
				env = append(env, "NO_COLOR=1")
				args = append(args, "--no-color=false")
			case "env+flag":
				env = append(env, "NO_COLOR=yes")
				args = append(args, "--no-color")
			case "flag-false":
				args = append(args, "--no-color=false")
			}
			if rapid.IntRange(0, 2).Draw(t, "terminal-environment") == 0 {
				// what terminals and colour conventions put into the environment: none of it outranks
				// --no-color / NO_COLOR, and none of it changes which results are printed
				for _, kv := range rapid.SliceOfNDistinct(rapid.SampledFrom([]string{"CLICOLOR_FORCE=1", "FORCE_COLOR=1", "FORCE_COLOR=3", "CLICOLOR=1", "COLORTERM=truecolor", "TERM=xterm-256color", "TERM=dumb", "TERM=", "COLUMNS=20", "COLUMNS=0", "COLUMNS=x", "LINES=1", "LANG=tr_TR.UTF-8", "LC_ALL=C", "TZ=Pacific/Kiritimati", "CI=true", "PAGER=less", "TERM_PROGRAM=vscode"}), 1, 4, func(s string) string { return strings.SplitN(s, "=", 2)[0] }).Draw(t, "terminal-env") {
					env = append(env, kv)
				}
			}
			for _, p := range platforms {
				args = append(args, "--platform", p)
			}
			if allP {
				args = append(args, "--all-platforms")
			}
			if noX {
				args = append(args, "--no-cross-platform")
			}
			bare := true
			for _, a := range argsQ {
				if strings.HasPrefix(a, "-") {
					bare = false
				}
			}
			switch argsQ[0] { // a first word that names a sub-command is that sub-command, by design
			case "search", "pipeline", "save", "save-pipeline", "history", "alias", "setup", "wizard", "help", "completion":
				bare = false
			}
			if bare && (qkind == "verb-first" || rapid.IntRange(0, 2).Draw(t, "words-first") == 0) {
				// `wtf find files --format json`: the query words first, no `--`, the flags after them
				flags := args
				args = nil
				if len(flags) > 0 && flags[0] == "search" {
					args, flags = []string{"search"}, flags[1:]
				}
				args = append(append(args, argsQ...), flags...)
				labels = append(labels, "words-first")
			} else {
				args = append(args, "--")
				args = append(args, argsQ...)
			}
			var r proc.Result
			ecwd := cwd
			if rapid.IntRange(0, 9).Draw(t, "removed-cwd") == 0 {
				// started from a working directory that has been removed meanwhile (a deleted checkout, a
				// cleaned temp dir): there is no project context, everything else works as usual
				gone := filepath.Join(dir, fmt.Sprintf("gone%d", s))
				sh := []string{"-c", `d="$1"; shift; mkdir -p "$d" && cd "$d" && rmdir "$d" && exec "$@"`, "sh", gone, proc.Wtf()}
				r = proc.Run(proc.Cmd{Path: "/bin/sh", Args: append(sh, args...), Env: h.Env(env...), Dir: dir, Timeout: 30 * time.Second, FSize: -1})
				ecwd = ""
				labels = append(labels, "removed-cwd")
			} else {
				r = proc.Run(proc.Cmd{Path: proc.Wtf(), Args: args, Env: h.Env(env...), Dir: cwd, Timeout: 30 * time.Second, FSize: -1})
			}
			if r.Panicked() || r.Signaled || r.TimedOut || (r.ExitCode != 0 && r.ExitCode != 1) {
				t.Fatalf("wtf %+q crashed (exit %d, working directory %q): %s %s", args, r.ExitCode, ecwd, clip(r.Stdout), clip(r.Stderr))
			}
			want, cleaned, rejected := engineAnswer(ecwd, dbp, h.Notebook(), strings.Join(argsQ, " "), limFlag, platforms, allP, noX)
			nowHist := histEntries(h.History())
			ctx := fmt.Sprintf("argv=%+q cwd markers=%v db=%s", args, markers, dbKind)
			if rejected {
				if len(nowHist) != len(prevHist) {
					t.Fatalf("a rejected search changed the history (%d -> %d entries); %s\n%s", len(prevHist), len(nowHist), ctx, clip(r.Stdout))
				}
				if strings.Contains(r.Stdout, "Searching for:") {
					t.Fatalf("a query/limit the validator rejects was searched anyway; %s\n%s", ctx, clip(r.Stdout))
				}
				if strings.TrimSpace(r.Stdout) == "" {
					t.Fatalf("rejected input produced no message; %s", ctx)
				}
				labels = append(labels, "rejected")
				continue
			}
			if !strings.Contains(r.Stdout, "Searching for: "+cleaned+"\n") {
				t.Fatalf("output lacks the 'Searching for: <validated query>' line for %+q; %s\n%s", cleaned, ctx, clip(r.Stdout))
			}
			lim, _ := validation.ValidateLimit(limFlag)
			var got []cliItem
			f := strings.ToLower(format)
			switch {
			case len(want) == 0:
				if !strings.Contains(r.Stdout, "No commands found") {
					t.Fatalf("engine finds nothing but the CLI does not say so; %s\n%s", ctx, clip(r.Stdout))
				}
			case f == "json":
				items, err := parseJSONBlock(r.Stdout)
				if err != nil {
					t.Fatalf("%v; %s\n%s", err, ctx, clip(r.Stdout))
				}
				got = items
				for i, it := range items {
					if i < len(want) && verbose {
						if fmt.Sprint(it.Keywords) != fmt.Sprint(want[i].Keywords) || fmt.Sprint(it.Platforms) != fmt.Sprint(want[i].Platforms) || it.Score != want[i].Score || it.Category != want[i].Category {
							t.Fatalf("verbose JSON item %d = %+v, engine %+v; %s", i, it, want[i], ctx)
						}
					}
					if !verbose && (len(it.Keywords) > 0 || len(it.Platforms) > 0 || it.Score != 0) {
						t.Fatalf("non-verbose JSON item %d carries verbose fields: %+v", i, it)
					}
				}
			case f == "table":
				for _, row := range parseTable(r.Stdout) {
					got = append(got, cliItem{Command: row})
				}
			default:
				got = parseList(stripANSI(r.Stdout))
			}
			if len(want) > 0 {
				if len(got) != len(want) {
					t.Fatalf("CLI printed %d results, the engine answers %d; %s\n%s", len(got), len(want), ctx, clip(r.Stdout))
				}
				if len(got) > lim {
					t.Fatalf("CLI printed %d results, limit in force %d; %s", len(got), lim, ctx)
				}
				for i := range want {
					wc := want[i].Command
					if f == "table" {
						// the command cell: the command itself, or a shortened form - a prefix of at least 10 bytes
						// followed by "..." (45 bytes today; the column widths are layout, not part of the statement:
						// hard-coding them was a false alarm against a tree with a wider column, DESIGN section 10)
						row := got[i].Command
						ok := strings.HasPrefix(row, wc) && (len(row) == len(wc) || row[len(wc)] == ' ')
						for from := 0; !ok; {
							j := strings.Index(row[from:], "...")
							if j < 0 {
								break
							}
							if p := row[:from+j]; len(p) >= 10 && len(p) < len(wc) && strings.HasPrefix(wc, p) {
								ok = true
							}
							from += j + 1
						}
						if !ok {
							t.Fatalf("table row %d shows %q, engine rank %d is %q; %s", i, row, i, wc, ctx)
						}
						continue
					}
					if got[i].Command != wc || got[i].Description != want[i].Description {
						t.Fatalf("result %d printed as (%q, %q), engine rank %d is (%q, %q); %s\n%s", i, got[i].Command, got[i].Description, i, wc, want[i].Description, ctx, clip(r.Stdout))
					}
				}
				anyResult = true
			}
			if colorMode != "color" && colorMode != "flag-false" && strings.ContainsRune(r.Stdout, 0x1b) {
				t.Fatalf("terminal escape sequence in the output although colour is disabled (%s); %s\n%+q", colorMode, ctx, clip(r.Stdout))
			}
			// history: exactly one corresponding newest entry
			wantQ := jsonRoundTrip(cleaned)
			switch {
			case len(nowHist) == 0 || nowHist[len(nowHist)-1].Query != wantQ:
				t.Fatalf("the newest history entry is not this search %+q: %+v; %s", wantQ, nowHist, ctx)
			case nowHist[len(nowHist)-1].ResultsCount != len(want):
				t.Fatalf("history records %d results, %d were printed; %s", nowHist[len(nowHist)-1].ResultsCount, len(want), ctx)
			case len(prevHist) > 0 && prevHist[len(prevHist)-1].Query == wantQ:
				if len(nowHist) != len(prevHist) {
					t.Fatalf("an immediately repeated search added an entry (%d -> %d); %s", len(prevHist), len(nowHist), ctx)
				}
			case len(nowHist) != len(prevHist)+1 && !(len(prevHist) == histMax && len(nowHist) == histMax):
				t.Fatalf("history grew from %d to %d entries for one search (maximum %d); %s", len(prevHist), len(nowHist), histMax, ctx)
			}
			prevHist = nowHist
			lastArgsQ = argsQ
			labels = append(labels, "format:"+f, "q:"+qkind, "db:"+dbKind)
			if strings.Contains(r.Stdout, "Warning: Search had issues") {
				labels = append(labels, "recovery-path")
			}
		}
		rec.Case(anyResult, map[string]any{"markers": markers, "db_kind": dbKind, "db": gen.BriefDB(cmds, 4), "searches": nSearch, "labels": labels}, labels...)
	})
}

func stripANSI(s string) string {
	var b strings.Builder
	for i := 0; i < len(s); i++ {
		if s[i] == 0x1b && i+1 < len(s) && s[i+1] == '[' {
			j := i + 2
			for j < len(s) && (s[j] < '@' || s[j] > '~') {
				j++
			}
			i = j
			continue
		}
		b.WriteByte(s[i])
	}
	return b.String()
}

func TestC17_Subcommands(t *testing.T) {
	needWtf(t)
	rec := stat.For("C17")
	rec.Rule("(B) every sub-command (search, pipeline, save, save-pipeline, history [--top|--stats|--clear|pattern], alias add/list/remove, setup, wizard [tar|find|ffmpeg|x], help, completion, --version, --help) with generated arguments, flags and stdin lines, in an isolated HOME that may hold damaged notebook / history files. Oracle: exit status 0 or 1, not signalled, finished within 10 s, no Go panic or fatal error in the output. Non-trivial = a sub-command other than search ran.")
	rapid.Check(t, func(t *rapid.T) {
		dir := mkdirWork("c17s-")
		defer os.RemoveAll(dir)
		h, _ := proc.NewHome(dir)
		dbp := filepath.Join(dir, "db.yml")
		os.WriteFile(dbp, gen.EmitYAML(c08Main), 0o644)
		homeState := rapid.IntRange(0, 4).Draw(t, "home-state")
		switch homeState {
		case 0:
			os.MkdirAll(filepath.Dir(h.History()), 0o755)
			data, _ := c16File(t)
			os.WriteFile(h.History(), data, 0o644)
		case 1:
			os.MkdirAll(filepath.Dir(h.Notebook()), 0o755)
			os.WriteFile(h.Notebook(), []byte(rapid.SampledFrom([]string{"", "[]", "- command: x\n  description: y\n", "- [", "command: notalist", "\x00\x01"}).Draw(t, "nb")), 0o644)
		case 2:
			// shell start-up files as people really have them: comments, exports, alias lines in every
			// shape the shell accepts (bare `alias ll`, `alias -p`, no value, blanks, tabs, a definition
			// of the very name `wtf setup` is asked for), no final newline, CR LF, or not a file at all
			rcLine := rapid.SampledFrom([]string{"# rc", "", "export A=1", "alias ll", "alias -p", "alias", "alias ", "alias\t", "alias =", "alias ll='ls -l'", "alias x y", "unalias hey", "  alias gs='git status' # x", "#alias hey='wtf'", "alias hey='/usr/bin/wtf'", "alias hey", "alias hey ", "alias hey=", "alias\they=x", "alias  hey=x", "aliashey=", "alias a=b alias", "alias alias", "alias ll\r", "\xff\xfe alias", "alias \u212a=k"})
			for _, rc := range []string{".bashrc", ".zshrc"} {
				switch rapid.IntRange(0, 7).Draw(t, "rc-kind-"+rc) {
				case 0: // absent
				case 1:
					os.Mkdir(filepath.Join(h.Dir, rc), 0o755)
				case 2:
					os.Symlink("nowhere", filepath.Join(h.Dir, rc))
				case 3:
					os.WriteFile(filepath.Join(h.Dir, rc), nil, 0o644)
				default:
					body := strings.Join(rapid.SliceOfN(rcLine, 1, 6).Draw(t, "rc-lines-"+rc), "\n")
					if rapid.Bool().Draw(t, "rc-final-newline-"+rc) {
						body += "\n"
					}
					os.WriteFile(filepath.Join(h.Dir, rc), []byte(body), 0o644)
				}
			}
		}
		arg := func(label string) string {
			s, _ := argvString(t, label)
			return s
		}
		name := func(label string) string { // alias names: no path separators (sandbox hygiene)
			s := strings.Map(func(r rune) rune {
				if r == '/' || r == 0 {
					return '_'
				}
				return r
			}, arg(label))
			if s == "" || s == "." || s == ".." {
				s = "hey"
			}
			return s
		}
		sub := rapid.SampledFrom([]string{"search", "pipeline", "save", "save-pipeline", "history", "history", "history", "history", "alias-add", "alias-list", "alias-remove", "setup", "wizard", "wizard", "help", "completion", "version", "bare", "unknown"}).Draw(t, "sub")
		switch homeState { // a damaged file matters to the sub-commands that read it
		case 0:
			sub = rapid.SampledFrom([]string{"search", "search", "history", "history"}).Draw(t, "sub-reading-history")
		case 1:
			sub = rapid.SampledFrom([]string{"search", "save", "save-pipeline", "pipeline"}).Draw(t, "sub-reading-notebook")
		case 2:
			sub = rapid.SampledFrom([]string{"setup", "setup", "setup", "alias-add", "alias-list", "alias-remove"}).Draw(t, "sub-reading-rc-files")
		}
		var args []string
		stdin := ""
		switch sub {
		case "search":
			args = []string{"search", "-d", dbp, "--", arg("q")}
		case "pipeline":
			args = []string{"pipeline", "-d", dbp}
			if rapid.Bool().Draw(t, "v") {
				args = append(args, "-v")
			}
			if rapid.Bool().Draw(t, "lim") {
				args = append(args, "--limit", strconv.Itoa(rapid.SampledFrom([]int{-5, 0, 1, 1000, 1<<44 + 1, math.MaxInt64, math.MinInt64}).Draw(t, "l")))
			}
			args = append(args, "--", arg("q"))
		case "save":
			args = []string{"save", "--keywords=" + flagValue(t, "k"), "--", arg("c"), arg("d")}
			if rapid.IntRange(0, 3).Draw(t, "wrong-arity") == 0 {
				args = args[:len(args)-1]
			}
		case "save-pipeline":
			args = []string{"save-pipeline", "--description=" + arg("desc"), "--", arg("n"), arg("c")}
		case "history":
			// any combination of the view flags, limits and a pattern, often after real searches
			for i := rapid.SampledFrom([]int{1, 2, 0, 3}).Draw(t, "prior-searches"); i > 0; i-- {
				runWtf(h, dir, []string{"--no-color", "-d", dbp, "--", rapid.SampledFrom([]string{"list files", "disk", "compress directory", "x"}).Draw(t, "prior-q")})
			}
			args = []string{"history"}
			for _, f := range []string{"--top", "--stats", "--clear"} {
				if rapid.IntRange(0, 3).Draw(t, "hflag"+f) == 0 {
					args = append(args, f)
				}
			}
			if rapid.IntRange(0, 2).Draw(t, "hlimit") > 0 {
				args = append(args, "--limit", strconv.Itoa(rapid.SampledFrom([]int{-1, -3, 0, 1, 2, 1000000, -1000000, 1<<31 - 1, 1 << 31, 1<<44 + 1, 1 << 62, math.MaxInt64, math.MinInt64}).Draw(t, "hl")))
			}
			if rapid.IntRange(0, 2).Draw(t, "hpattern") > 0 {
				pat := rapid.SampledFrom([]string{"i", "list", "dis", "", "x", "find", "zz"}).Draw(t, "pattern-word")
				if rapid.IntRange(0, 3).Draw(t, "hostile-pattern") == 0 {
					pat = arg("pattern")
				}
				args = append(args, "--", pat)
			}
		case "alias-add":
			args = []string{"alias", "add", "--", name("alias")}
		case "alias-list":
			args = []string{"alias", "list"}
		case "alias-remove":
			args = []string{"alias", "remove", "--", name("alias")}
		case "setup":
			args = []string{"setup", "--", name("alias")}
		case "wizard":
			args = []string{"wizard"}
			if rapid.Bool().Draw(t, "which?") {
				args = append(args, rapid.SampledFrom([]string{"tar", "find", "ffmpeg", "x", "TAR"}).Draw(t, "wiz"))
			}
			lines := rapid.SliceOfN(rapid.OneOf(rapid.SampledFrom([]string{"1", "2", "3", "4", "9", "0", "-1", "y", "n", "", "archive.tar.gz", "/tmp/x", "*.go", "abc"}), rapid.StringN(0, 8, -1)), 0, 12).Draw(t, "stdin")
			stdin = strings.Join(lines, "\n")
			if rapid.Bool().Draw(t, "final-newline") {
				stdin += "\n"
			}
		case "help":
			args = []string{"help"}
			if rapid.Bool().Draw(t, "topic") {
				args = append(args, rapid.SampledFrom([]string{"search", "save", "wizard", "nosuch"}).Draw(t, "topic-name"))
			}
		case "completion":
			args = []string{"completion", rapid.SampledFrom([]string{"bash", "zsh", "fish", "powershell", "nosuch"}).Draw(t, "shell")}
		case "version":
			args = []string{rapid.SampledFrom([]string{"--version", "--help", "-h"}).Draw(t, "flag")}
		case "bare":
			args = nil
		default:
			args = []string{rapid.SampledFrom([]string{"--nosuchflag", "-Z", "--limit", "--format"}).Draw(t, "bad")}
		}
		r := proc.Run(proc.Cmd{Path: proc.Wtf(), Args: args, Env: h.Env(), Dir: dir, Stdin: stdin + " ", Timeout: 10 * time.Second, FSize: -1})
		if r.TimedOut {
			t.Fatalf("wtf %+q did not finish within %v (stdin %+q)", args, proc.MinTimeout, stdin)
		}
		if r.Panicked() || r.Signaled || (r.ExitCode != 0 && r.ExitCode != 1) {
			t.Fatalf("wtf %+q crashed: exit %d signal %q\n%s\n%s", args, r.ExitCode, r.Signal, clip(r.Stdout), clip(r.Stderr))
		}
		rec.Case(sub != "search", map[string]any{"argv": args, "stdin": clip(stdin), "exit": r.ExitCode}, "sub:"+sub)
	})
}
