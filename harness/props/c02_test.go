package props

import (
	"encoding/json"
	"fmt"
	"os"
	"path/filepath"
	"strings"
	"testing"
	"time"

	"github.com/Vedant9500/WTF/internal/database"
	"github.com/Vedant9500/WTF/verifharness/gen"
	"github.com/Vedant9500/WTF/verifharness/proc"
	"github.com/Vedant9500/WTF/verifharness/stat"
	"pgregory.net/rapid"
)

// C02 — same database, query and options always give the same ranked answer.
// Oracle: self-differential, bitwise, over repetitions, independent loads and processes.

func init() {
	// child: load a database file, run one search, print the ranked list
	proc.RegisterHelper("c02search", func(args []string) int {
		if len(args) != 3 {
			return 96
		}
		db, err := database.LoadDatabase(args[0])
		if err != nil {
			fmt.Println("LOAD-ERROR", err)
			return 0
		}
		var opt database.SearchOptions
		if err := json.Unmarshal([]byte(args[2]), &opt); err != nil {
			return 96
		}
		fmt.Println(rankStr(rank(db, db.SearchUniversal(args[1], opt))))
		fmt.Println(strings.Join(db.GetSuggestions(args[1], 5), "|"))
		return 0
	})
}

func init() {
	// child: every query of a JSON file against one database file, one line per query
	proc.RegisterHelper("c02batch", func(args []string) int {
		if len(args) != 3 {
			return 96
		}
		db, err := database.LoadDatabase(args[0])
		data, err2 := os.ReadFile(args[1])
		var qs []string
		var opt database.SearchOptions
		if err != nil || err2 != nil || json.Unmarshal(data, &qs) != nil || json.Unmarshal([]byte(args[2]), &opt) != nil {
			return 96
		}
		for _, q := range qs {
			fmt.Println(rankStr(rank(db, db.SearchUniversal(q, opt))))
		}
		return 0
	})
}

// TestC02_ProcsBatch: whatever a process decides once - at package initialisation, on first use -
// and then keeps for its lifetime (a word table inverted from a map, a lazily built lookup) is
// invisible to repetition inside one process. Every word the language stage knows, in the
// verb and in the object position, is therefore asked in six fresh processes.
func TestC02_ProcsBatch(t *testing.T) {
	rec := stat.For("C02")
	rec.Rule("fresh-process batches: a database holding one entry per word of the language stage plus entries that name tools, actions and objects together; every such word as the first word of a query (followed by drawn object / tool words) and as its last word, NLP on, in 6 fresh processes and in this one. Oracle: identical ranked (index, score bits) lists everywhere. Non-trivial = the answer is non-empty.")
	rapid.Check(t, func(t *rapid.T) {
		cmds := gen.LanguagePack()
		tools := []string{"docker", "pip", "apt", "git", "nginx", "npm", "systemctl", "ssh", "python", "node"}
		acts := []string{"install", "config", "configure", "setup", "enable", "init", "create", "remove", "start", "show", "list", "build"}
		for _, tl := range tools {
			for _, a := range rapid.SliceOfNDistinct(rapid.SampledFrom(acts), 2, 5, rapid.ID[string]).Draw(t, "acts-"+tl) {
				cmds = append(cmds, database.Command{Command: tl + " " + a + " " + rapid.SampledFrom([]string{"docker", "server", "files", "package", "service", "project"}).Draw(t, "obj"), Description: a + " " + tl + " things", Keywords: []string{a, tl}})
			}
		}
		dir := mkdirWork("c02b-")
		defer os.RemoveAll(dir)
		dbp := filepath.Join(dir, "db.yml")
		os.WriteFile(dbp, gen.EmitYAML(cmds), 0o644)
		second := rapid.SliceOfN(rapid.SampledFrom(append(append([]string{}, tools...), "files", "server", "package", "service", "directory", "network")), 1, 2).Draw(t, "second-words")
		var qs []string
		for _, w := range gen.NLPWords {
			if strings.ContainsAny(w, "<>|&;$") {
				continue
			}
			qs = append(qs, w+" "+strings.Join(second, " "), "how to "+second[0]+" "+w)
		}
		qf := filepath.Join(dir, "queries.json")
		enc, _ := json.Marshal(qs)
		os.WriteFile(qf, enc, 0o644)
		opt := database.SearchOptions{Limit: rapid.SampledFrom([]int{3, 5, 10}).Draw(t, "limit"), UseNLP: true, UseFuzzy: rapid.Bool().Draw(t, "fuzzy"), AllPlatforms: true}
		oj, _ := json.Marshal(opt)
		db, err := database.LoadDatabase(dbp)
		if err != nil {
			t.Fatalf("harness: %v", err)
		}
		var here []string
		nonEmpty := 0
		for _, q := range qs {
			r := rank(db, db.SearchUniversal(q, opt))
			if len(r) > 0 {
				nonEmpty++
			}
			here = append(here, rankStr(r))
		}
		for p := 0; p < 6; p++ {
			r := proc.Run(proc.Cmd{Helper: "c02batch", Args: []string{dbp, qf, string(oj)}, FSize: -1, Timeout: 170 * time.Second})
			if r.ExitCode != 0 || r.TimedOut {
				t.Fatalf("helper failed: exit %d timed-out %v %s", r.ExitCode, r.TimedOut, clip(r.Stderr))
			}
			lines := strings.Split(strings.TrimRight(r.Stdout, "\n"), "\n")
			if len(lines) != len(qs) {
				t.Fatalf("harness: helper printed %d lines for %d queries", len(lines), len(qs))
			}
			for i := range qs {
				if lines[i] != here[i] {
					saveCase("C02", "procs-batch", map[string]any{"test": "TestC02_ProcsBatch", "query": qs[i], "options": opt, "this_process": here[i], "fresh_process": lines[i], "process_no": p})
					t.Fatalf("separate processes disagree for query %q (NLP on, options %s):\n this process : %s\n fresh process %d: %s", qs[i], oj, here[i], p, lines[i])
				}
			}
		}
		rec.Case(nonEmpty > 0, map[string]any{"cross_process_batch": true, "queries": len(qs), "non_empty": nonEmpty, "entries": len(cmds), "second_words": second, "options": optBrief(opt)}, "cross-process-batch")
	})
}

func hasTieOrCut(db *database.Database, q string, opt database.SearchOptions) (tie, cut bool) {
	big := opt
	big.Limit = len(db.Commands) + 5
	if big.Limit > 400 {
		big.Limit = 400 // shipped database: a 400-entry window is enough to see ties and cuts
	}
	all := db.SearchUniversal(q, big)
	for i := 1; i < len(all); i++ {
		if all[i].Score == all[i-1].Score {
			tie = true
		}
	}
	lim := opt.Limit
	if lim <= 0 {
		lim = 10
	}
	return tie, len(all) > lim
}

func c02Repeat(useShipped bool) func(t *rapid.T) {
	rec := stat.For("C02")
	rec.Rule("tie-heavy databases (k copies of an entry, entries differing only in an unsearched field or in _ vs -) emphasised, limits that cut tie groups, all options; each case: 6 repeated SearchUniversal calls on one Database + 2 independently loaded copies + GetSuggestions on repetition and reload; separate-process and built-binary repetitions in their own sub-check. Oracle: ranked (entry index, Float64bits(score)) lists identical. Non-trivial = at least two candidates tie bit-for-bit at Limit>=N, or candidates exceed the limit.")
	return func(t *rapid.T) {
		var cmds []database.Command
		var cls gen.DBClass
		var db, db2 *database.Database
		var path string
		langPack, freshProc := false, false
		if useShipped {
			var err error
			db, err = shipped()
			if err != nil {
				t.Fatalf("shipped: %v", err)
			}
			cmds, cls = db.Commands, "shipped"
		} else {
			cmds, cls = gen.DB(t, gen.CmdOpts{Platforms: rapid.Bool().Draw(t, "plat"), Sized: true, Long: true, Heavy: true}, []int{0, 1, 10, 6, 1})
			if rapid.IntRange(0, 7).Draw(t, "language-pack") == 0 {
				// every word the language stage knows is a word of the database: whatever that stage adds to
				// a query (synonym, hint, stem) then changes the candidates and the scores
				cmds, cls, langPack = append(cmds, gen.LanguagePack()...), "language-pack:"+cls, true
			}
			path = gen.WriteDB(t, cmds)
			defer os.Remove(path)
			var err error
			if db, err = database.LoadDatabase(path); err != nil {
				t.Fatalf("load: %v", err)
			}
			if db2, err = database.LoadDatabase(path); err != nil {
				t.Fatalf("load: %v", err)
			}
			if rapid.IntRange(0, 3).Draw(t, "in-memory") == 0 {
				// databases assembled in memory (no lower-case caches), as UpdateDatabase /
				// LoadDatabaseWithMonitoring callers and the built-in fallback hand them over
				cls = "in-memory:" + cls
				if rapid.Bool().Draw(t, "via-update") {
					c1 := database.NewCachedDatabase(&database.Database{})
					c1.UpdateDatabase(cloneCmds(cmds))
					c2 := database.NewCachedDatabase(&database.Database{})
					c2.UpdateDatabase(cloneCmds(cmds))
					db, db2 = c1.Database, c2.Database
				} else {
					db, db2 = &database.Database{Commands: cloneCmds(cmds)}, &database.Database{Commands: cloneCmds(cmds)}
				}
			}
		}
		grown := false
		if !useShipped && len(cmds) >= 2 && !strings.HasPrefix(string(cls), "in-memory") && rapid.IntRange(0, 3).Draw(t, "grown-copy") == 0 {
			// the first copy reaches its content by growing at run time (searched before with NLP on,
			// extended, then asked a plain question first); the second copy was loaded whole
			k := rapid.IntRange(1, len(cmds)-1).Draw(t, "grown-from")
			part := gen.Load(t, cmds[:k])
			part.SearchUniversal("find files", database.SearchOptions{Limit: 5, UseNLP: true})
			part.Commands = append(part.Commands, gen.Load(t, cmds[k:]).Commands...)
			part.SearchUniversal("list", database.SearchOptions{Limit: 5, UseNLP: false, UseFuzzy: rapid.Bool().Draw(t, "grown-fuzzy")})
			db, grown = part, true
		}
		replaced := false
		if !useShipped && !grown && len(cmds) >= 1 && len(cmds) <= 200 && !strings.HasPrefix(string(cls), "in-memory") && rapid.IntRange(0, 4).Draw(t, "replaced-copy") == 0 {
			// the first copy held other content of the same size before, was searched there (lexically,
			// with NLP, through the typo fallback), and was then given the present content
			old := make([]database.Command, len(cmds))
			for i := range old {
				old[i] = gen.Command(gen.CmdOpts{}).Draw(t, "old-entry")
			}
			odb := gen.Load(t, old)
			for _, oq := range []string{"find files", gen.Typo(t, append(gen.Tokens(old), "alpha")[0]), "zq"} {
				odb.SearchUniversal(oq, database.SearchOptions{Limit: 5, UseNLP: rapid.Bool().Draw(t, "old-nlp"), UseFuzzy: true, PipelineOnly: rapid.IntRange(0, 3).Draw(t, "old-ponly") == 0})
			}
			fresh := gen.Load(t, cmds)
			// (through UpdateDatabase, the documented way to replace the content; assigning Commands
			// and calling BuildUniversalIndex alone leaves the re-ranker as it was - not a supported history)
			c := database.NewCachedDatabase(odb)
			c.UpdateDatabase(fresh.Commands)
			db = c.Database
			replaced = true
		}
		withEmb := false
		if !useShipped && len(cmds) <= 80 && rapid.IntRange(0, 2).Draw(t, "embeddings") == 0 {
			// the optional semantic stage: equal index content attached to both copies
			idx := drawEmbeddingIndex(t, cmds)
			database.VerifSetEmbeddingIndex(db, idx)
			database.VerifSetEmbeddingIndex(db2, cloneEmbeddingIndex(idx))
			withEmb = true
		}
		var q string
		var qcls gen.QueryClass
		if useShipped {
			if rapid.Bool().Draw(t, "known-tie") {
				q, qcls = rapid.SampledFrom([]string{"disk usage", "move disk", "list files", "git commit", "compress directory", "show ip", "qm"}).Draw(t, "q"), "shipped-tie"
			} else {
				off := rapid.IntRange(0, len(cmds)-60).Draw(t, "off")
				q, qcls = gen.Query(t, cmds[off:off+50], []gen.QueryClass{"vocab", "nlp", "typo", "mixed"})
			}
		} else {
			q, qcls = gen.Query(t, cmds, []gen.QueryClass{"vocab", "vocab", "vocab", "nlp", "nlp", "typo", "fragment", "mixed", "long", "inflected"})
			if langPack && rapid.IntRange(0, 3).Draw(t, "ask-inflected") > 0 {
				q, qcls = gen.Query(t, cmds, []gen.QueryClass{"inflected"})
			}
		}
		opt := gen.Options(t, gen.OptSpec{N: len(cmds)})
		if langPack && rapid.IntRange(0, 3).Draw(t, "language-stage-on") > 0 {
			opt.UseNLP = true
		}
		if useShipped && (opt.Limit > 200 || opt.Limit < 0) {
			opt.Limit = 25
		}
		if !useShipped {
			// only ONE of the two copies is asked other things first (incl. the same query
			// under other limits/options): the answer must not depend on a database's past
			warmUp(t, db, cmds, q, opt)
		}
		// the second copy gets its own, equal options value (maps and slices are not shared)
		opt2 := opt
		if opt.ContextBoosts != nil {
			opt2.ContextBoosts = map[string]float64{}
			for k, v := range opt.ContextBoosts {
				opt2.ContextBoosts[k] = v
			}
		}
		opt2.Platforms = append([]string(nil), opt.Platforms...)
		if !useShipped && rapid.Bool().Draw(t, "other-queries-same-options") {
			// the caller's one options value serves several different queries before this one
			for i := rapid.IntRange(1, 3).Draw(t, "n-other"); i > 0; i-- {
				oq, _ := gen.Query(t, cmds, []gen.QueryClass{"vocab", "nlp", "nlp", "mixed"})
				db.SearchUniversal(oq, opt)
			}
		}
		first := rank(db, db.SearchUniversal(q, opt))
		reps := 6
		if useShipped {
			reps = 3
		}
		for rep := 1; rep < reps; rep++ {
			again := rank(db, db.SearchUniversal(q, opt))
			if !rankEq(first, again) {
				t.Fatalf("repetition %d differs for query %q options %v\n first: %s\n again: %s\n db=%v", rep, q, optBrief(opt), rankStr(first), rankStr(again), gen.BriefDB(cmds, 12))
			}
		}
		if db2 != nil {
			for rep := 0; rep < 2; rep++ {
				other := rank(db2, db2.SearchUniversal(q, opt2))
				if !rankEq(first, other) {
					t.Fatalf("independently loaded copy differs for query %q options %v\n first: %s\n other: %s\n db=%v", q, optBrief(opt), rankStr(first), rankStr(other), gen.BriefDB(cmds, 12))
				}
			}
		}
		// a process that has answered thousands of other questions and one that has just started give
		// the same answer: the very same file, query and options in a fresh child process
		if path != "" && (langPack && rapid.Bool().Draw(t, "fresh-process") || rapid.IntRange(0, 59).Draw(t, "fresh-process-any") == 0) && !grown && !replaced && !withEmb && !strings.HasPrefix(string(cls), "in-memory") {
			if oj, err := json.Marshal(opt); err == nil { // (options with NaN / Inf have no JSON form)
				r := proc.Run(proc.Cmd{Helper: "c02search", Args: []string{path, q, string(oj)}, FSize: -1})
				if r.ExitCode != 0 || r.TimedOut {
					t.Fatalf("helper failed: %+v", r)
				}
				if got := strings.SplitN(r.Stdout, "\n", 2)[0]; got != rankStr(first) {
					t.Fatalf("a fresh process answers differently from this long-running one for query %q options %v\n here:  %s\n fresh: %s\n db=%v", q, optBrief(opt), rankStr(first), got, gen.BriefDB(cmds, 12))
				}
				freshProc = true
			}
		}
		// the older entry points, which merge and sort candidate lists of their own
		older := map[string]func(d *database.Database, o database.SearchOptions) []database.SearchResult{
			"SearchWithFuzzy": func(d *database.Database, o database.SearchOptions) []database.SearchResult {
				return d.SearchWithFuzzy(q, o)
			},
			"SearchWithNLP": func(d *database.Database, o database.SearchOptions) []database.SearchResult {
				return d.SearchWithNLP(q, o)
			},
			"SearchWithOptions": func(d *database.Database, o database.SearchOptions) []database.SearchResult {
				return d.SearchWithOptions(q, o)
			},
			"SearchWithPipelineOptions": func(d *database.Database, o database.SearchOptions) []database.SearchResult {
				return d.SearchWithPipelineOptions(q, o)
			},
		}
		for _, name := range []string{"SearchWithFuzzy", "SearchWithNLP", "SearchWithOptions", "SearchWithPipelineOptions"} {
			call := older[name]
			if useShipped && name != "SearchWithPipelineOptions" {
				continue // linear scans of 6,619 entries: kept to the generated databases
			}
			a := rank(db, call(db, opt))
			for rep := 0; rep < 2; rep++ {
				if b := rank(db, call(db, opt)); !rankEq(a, b) {
					t.Fatalf("%s: repetition differs for query %q options %v\n first: %s\n again: %s\n db=%v", name, q, optBrief(opt), rankStr(a), rankStr(b), gen.BriefDB(cmds, 12))
				}
			}
			if db2 != nil {
				if b := rank(db2, call(db2, opt2)); !rankEq(a, b) {
					t.Fatalf("%s: independently loaded copy differs for query %q options %v\n first: %s\n other: %s\n db=%v", name, q, optBrief(opt), rankStr(a), rankStr(b), gen.BriefDB(cmds, 12))
				}
			}
		}
		ns := rapid.SampledFrom([]int{0, 1, 3, 5}).Draw(t, "nsug")
		s1 := db.GetSuggestions(q, ns)
		for rep := 0; rep < reps/2; rep++ {
			s2 := db.GetSuggestions(q, ns)
			if strings.Join(s1, "|") != strings.Join(s2, "|") {
				t.Fatalf("suggestions differ on repetition for %q: %v vs %v\n db=%v", q, s1, s2, gen.BriefDB(cmds, 12))
			}
		}
		if db2 != nil {
			if s2 := db2.GetSuggestions(q, ns); strings.Join(s1, "|") != strings.Join(s2, "|") {
				t.Fatalf("suggestions differ on reload for %q: %v vs %v", q, s1, s2)
			}
		}
		tie, cut := hasTieOrCut(db, q, opt)
		labels := []string{"db:" + string(cls), "q:" + string(qcls)}
		if withEmb {
			labels = append(labels, "embedding-index-attached")
		}
		if replaced {
			labels = append(labels, "replaced-copy")
		}
		if freshProc {
			labels = append(labels, "fresh-process-compared")
		}
		if grown {
			labels = append(labels, "grown-copy")
		}
		if tie {
			labels = append(labels, "tie-present")
		}
		if cut {
			labels = append(labels, "limit-cuts")
		}
		if opt.UseNLP {
			labels = append(labels, "nlp")
		}
		if len(s1) > 1 {
			labels = append(labels, "suggestions>1")
		}
		n := len(cmds)
		if useShipped {
			cmds = nil
		}
		rec.Case(tie || cut, map[string]any{"db_class": cls, "db_size": n, "db": gen.BriefDB(cmds, 6), "query": q, "options": optBrief(opt), "answer": rankStr(first)}, labels...)
	}
}

func TestC02_Repeat(t *testing.T) {
	stat.For("C02").RequireShare("tie-present", 0.25)
	rapid.Check(t, c02Repeat(false))
}

func TestC02_Shipped(t *testing.T) {
	rapid.Check(t, c02Repeat(true))
}

// TestC02_Procs compares three separate harness processes and repeated runs of the built binary.
func TestC02_Procs(t *testing.T) {
	needWtf(t)
	rec := stat.For("C02")
	rapid.Check(t, func(t *rapid.T) {
		cmds, cls := gen.DB(t, gen.CmdOpts{Platforms: rapid.Bool().Draw(t, "platform-tags")}, []int{0, 0, 10, 5, 1})
		dir := mkdirWork("c02p-")
		defer os.RemoveAll(dir)
		dbp := filepath.Join(dir, "db.yml")
		os.WriteFile(dbp, gen.EmitYAML(cmds), 0o644)
		toks := gen.Tokens(cmds)
		if len(toks) == 0 {
			toks = []string{"alpha"}
		}
		q := gen.TextOf(rapid.SampledFrom(toks), 1, 3).Draw(t, "q")
		q = strings.Join(strings.Fields(strings.Map(func(r rune) rune {
			if r < 0x20 || r > 0x7e || strings.ContainsRune("<>|&;$", r) {
				return ' '
			}
			return r
		}, q)), " ")
		if q == "" {
			q = "alpha"
		}
		opt := database.SearchOptions{Limit: rapid.SampledFrom([]int{1, 2, 3, 5}).Draw(t, "limit"), UseNLP: rapid.Bool().Draw(t, "nlp"), UseFuzzy: true, AllPlatforms: rapid.Bool().Draw(t, "all-platforms")}
		oj, _ := json.Marshal(opt)
		var outs []string
		// three processes; the second and third often run in another environment (a WSL session's variables,
		// another locale / terminal / time zone, unknown WTF_* settings) and another working directory: the
		// answer is a function of database content, query and options
		envs := [][]string{nil, nil, nil}
		for i := 1; i < 3; i++ {
			if rapid.Bool().Draw(t, "odd-environment") {
				envs[i] = append([]string{"PATH=/usr/bin:/bin"}, gen.HostileEnv(t, fmt.Sprint(i))...)
			}
		}
		for i := 0; i < 3; i++ {
			wd := ""
			if envs[i] != nil {
				wd = "/"
			}
			r := proc.Run(proc.Cmd{Helper: "c02search", Args: []string{dbp, q, string(oj)}, FSize: -1, Env: envs[i], Dir: wd})
			if r.ExitCode != 0 || r.TimedOut {
				t.Fatalf("helper failed: %+v", r)
			}
			outs = append(outs, r.Stdout)
		}
		if outs[0] != outs[1] || outs[0] != outs[2] {
			t.Fatalf("separate processes disagree for query %q options %s (environments %q):\n%s---\n%s---\n%s\ndb=%v", q, oj, envs, outs[0], outs[1], outs[2], gen.BriefDB(cmds, 12))
		}
		h, _ := proc.NewHome(dir)
		args := []string{"--no-color", "-d", dbp, "--format", "json", "-v", "--limit", fmt.Sprint(opt.Limit), "--", q}
		if opt.AllPlatforms {
			args = append([]string{"--all-platforms"}, args...)
		}
		var bouts []string
		for i := 0; i < 3; i++ {
			r := runWtf(h, dir, args, envs[i]...)
			if r.Panicked() || r.TimedOut {
				t.Fatalf("wtf crashed: %+v", r)
			}
			bouts = append(bouts, stripTiming(r.Stdout))
		}
		if bouts[0] != bouts[1] || bouts[0] != bouts[2] {
			t.Fatalf("repeated `wtf %q` runs print different output:\n%s\n---\n%s\n---\n%s", args, bouts[0], bouts[1], bouts[2])
		}
		db := gen.Load(t, cmds)
		tie, cut := hasTieOrCut(db, q, opt)
		labels := []string{"cross-process", "db:" + string(cls)}
		if tie {
			labels = append(labels, "tie-present")
		}
		rec.Case(tie || cut, map[string]any{"cross_process": true, "db": gen.BriefDB(cmds, 6), "query": q, "options": optBrief(opt), "helper_out": strings.TrimSpace(outs[0])}, labels...)
	})
}

// TestC02_Huge: databases beyond any size at which an implementation may switch to chunked or
// parallel processing (8200-20000 entries), with groups of identical entries spread over the
// whole list, asked questions that every stage can answer: lexical, language-stage and typo
// fallback. Ties between entries far apart are where a merge of partial results shows.
func TestC02_Huge(t *testing.T) {
	rec := stat.For("C02")
	rapid.Check(t, func(t *rapid.T) {
		n := rapid.SampledFrom([]int{8200, 9000, 12000, 16500, 20000}).Draw(t, "n")
		cmds := gen.Bulk(t, n, gen.CmdOpts{})
		word := rapid.SampledFrom([]string{"wyvernquoz", "qzjxvk", "xyzzyplugh"}).Draw(t, "word")
		groups := rapid.IntRange(1, 3).Draw(t, "groups")
		for g := 0; g < groups; g++ {
			twin := database.Command{Command: fmt.Sprintf("%s run%d", word, g), Description: "one of many identical entries"}
			for k, copies := 0, rapid.SampledFrom([]int{12, 40, 120}).Draw(t, "copies"); k < copies; k++ {
				cmds[rapid.IntRange(0, n-1).Draw(t, "twin-at")] = twin
			}
		}
		db, db2 := gen.Load(t, cmds), gen.Load(t, cmds)
		d := rapid.IntRange(1, len(word)-2).Draw(t, "drop")
		queries := []string{word, word[:d] + word[d+1:], word + " run0", "find " + word}
		for _, q := range queries {
			for _, opt := range []database.SearchOptions{
				{Limit: rapid.SampledFrom([]int{3, 10, 50, 1000}).Draw(t, "limit"), UseFuzzy: true, AllPlatforms: true},
				{Limit: 10, UseFuzzy: true, UseNLP: true, AllPlatforms: true},
			} {
				first := rank(db, db.SearchUniversal(q, opt))
				for rep := 0; rep < 5; rep++ {
					if again := rank(db, db.SearchUniversal(q, opt)); !rankEq(first, again) {
						t.Fatalf("repetition %d differs on a database of %d entries for query %q options %v\n first: %s\n again: %s", rep+1, n, q, optBrief(opt), rankStr(first), rankStr(again))
					}
				}
				if other := rank(db2, db2.SearchUniversal(q, opt)); !rankEq(first, other) {
					t.Fatalf("independently loaded copy of %d entries differs for query %q options %v\n first: %s\n other: %s", n, q, optBrief(opt), rankStr(first), rankStr(other))
				}
			}
		}
		rec.Case(true, map[string]any{"huge": true, "db_size": n, "word": word, "groups": groups}, "huge-database")
	})
}
