package props

import (
	"encoding/json"
	"fmt"
	"math"
	"os"
	"path/filepath"
	"strings"
	"testing"
	"time"

	"github.com/Vedant9500/WTF/internal/database"
	"github.com/Vedant9500/WTF/internal/recovery"
	"github.com/Vedant9500/WTF/verifharness/gen"
	"github.com/Vedant9500/WTF/verifharness/proc"
	"github.com/Vedant9500/WTF/verifharness/stat"
	"pgregory.net/rapid"
)

// C15 — loading always ends with a usable database, without futile retries.

type c15Config struct {
	MaxAttempts   int
	BaseDelayUs   int64
	MaxDelayUs    int64
	BackoffFactor float64
}

type c15Outcome struct {
	DBNil      bool
	Err        string
	Commands   [][2]string // (command, description)
	Attempts   int
	LastErr    string
	DelaysNs   []int64
	Searchable bool
	Panic      string
}

var devNull, _ = os.OpenFile(os.DevNull, os.O_WRONLY, 0)

// c15Watch runs one load under a watchdog: "loading always ends".
func c15Watch(dr *recovery.DatabaseRecovery, mainPath, personalPath string, budget time.Duration) (db *database.Database, err error, ended bool) {
	type res struct {
		db  *database.Database
		err error
	}
	ch := make(chan res, 1)
	go func() {
		d, e := dr.LoadDatabaseWithFallback(mainPath, personalPath)
		ch <- res{d, e}
	}()
	select {
	case r := <-ch:
		return r.db, r.err, true
	case <-time.After(budget):
		return nil, nil, false
	}
}

// c15Load runs LoadDatabaseWithFallback with the attempt observer installed.
func c15Load(mainPath, personalPath string, cfg c15Config) (out c15Outcome) {
	defer func() {
		if r := recover(); r != nil {
			out.Panic = fmt.Sprint(r)
		}
	}()
	recovery.VerifSetObserver(&recovery.VerifObserver{
		Attempt: func(n int, err error) {
			out.Attempts++
			if err != nil {
				out.LastErr = err.Error()
			}
		},
		Delay: func(n int, d time.Duration) { out.DelaysNs = append(out.DelaysNs, int64(d)) },
	})
	defer recovery.VerifSetObserver(nil)
	saved := os.Stdout
	os.Stdout = devNull // the loader prints a warning for every fallback
	dr := recovery.NewDatabaseRecovery(recovery.RetryConfig{MaxAttempts: cfg.MaxAttempts, BaseDelay: time.Duration(cfg.BaseDelayUs) * time.Microsecond,
		MaxDelay: time.Duration(cfg.MaxDelayUs) * time.Microsecond, BackoffFactor: cfg.BackoffFactor})
	// the longest legitimate schedule here: 6 attempts with waits capped at 10 ms
	db, err, ended := c15Watch(dr, mainPath, personalPath, 60*time.Second)
	os.Stdout = saved
	if !ended {
		out.Panic = fmt.Sprintf("loading did not end within 60 s (%d attempts so far): it must end after at most the configured number of attempts", out.Attempts)
		return out
	}
	if err != nil {
		out.Err = err.Error()
	}
	if db == nil {
		out.DBNil = true
		return out
	}
	for _, c := range db.Commands {
		out.Commands = append(out.Commands, [2]string{c.Command, c.Description})
	}
	// searchable: any database that is handed back - an empty one too - answers a search
	for _, nlpOn := range []bool{false, true} {
		db.SearchUniversal("list files", database.SearchOptions{Limit: 5, UseNLP: nlpOn, UseFuzzy: true})
	}
	// ... and a search for a word of one of its own commands finds something
	for _, c := range db.Commands {
		for _, tok := range gen.Tokens([]database.Command{c}) {
			if len(db.SearchUniversal(tok, database.SearchOptions{Limit: len(db.Commands) + 1, AllPlatforms: true})) > 0 {
				out.Searchable = true
				return out
			}
		}
	}
	return out
}

func init() {
	// child entry for the cases that need a non-root reader
	proc.RegisterHelper("c15load", func(args []string) int {
		var cfg c15Config
		if len(args) != 3 || json.Unmarshal([]byte(args[2]), &cfg) != nil {
			return 96
		}
		out := c15Load(args[0], args[1], cfg)
		data, _ := json.Marshal(out)
		fmt.Println("C15OUT " + string(data))
		return 0
	})
}

var c15MainFaults = []string{"good", "missing", "directory", "empty", "malformed", "wrong-shape", "binary", "unreadable", "unset", "symlink", "dangling"}
var c15PersonalFaults = []string{"absent", "good", "empty", "malformed", "directory", "unreadable", "unset", "symlink", "dangling", "loop", "same-path", "hardlink-main", "symlink-main"}

// c15AliasesMain: the notebook path names the main file itself (the same path, a hard link to it, a
// symbolic link to it): a notebook that loads whenever the main file does, with the same entries
func c15AliasesMain(persF string) bool {
	return persF == "same-path" || persF == "hardlink-main" || persF == "symlink-main"
}

var c15BackupFaults = []string{"absent", "good", "malformed", "empty"}

var c15MainCmds = []database.Command{
	{Command: "tar -czf out.tgz dir", Description: "compress a directory", Keywords: []string{"archive"}},
	{Command: "grep -r pattern .", Description: "search text recursively", Keywords: []string{"find"}, Platform: []string{"linux"}},
	{Command: "ipconfig /all", Description: "show network configuration", Platform: []string{"windows"}},
}
var c15PersonalCmds = []database.Command{
	{Command: "mytool deploy", Description: "deploy my project", Keywords: []string{"release"}},
	{Command: "notes open", Description: "open the notebook"},
	// the user's own copies of built-in entries: the same text, the same text in other letters, and one entry twice
	{Command: "tar -czf out.tgz dir", Description: "compress a directory", Keywords: []string{"mine"}},
	{Command: "GREP -R PATTERN .", Description: "Search Text Recursively"},
	{Command: "notes open", Description: "open the notebook"},
}

func c15Materialise(dir, name, fault string, cmds []database.Command) string {
	p := filepath.Join(dir, name)
	switch fault {
	case "missing", "absent", "unset":
	case "good":
		os.WriteFile(p, gen.EmitYAML(cmds), 0o644)
	case "symlink": // a symbolic link to a good file kept elsewhere (package managers, dotfile managers)
		real := filepath.Join(dir, "store", name+".v2")
		os.MkdirAll(filepath.Dir(real), 0o755)
		os.WriteFile(real, gen.EmitYAML(cmds), 0o644)
		os.Symlink(real, p)
	case "loop": // a symbolic link to itself: the file is there but cannot be opened (ELOOP), a broken notebook
		os.Symlink(p, p)
	case "dangling": // a symbolic link whose target is gone: a file that is not there
		os.Symlink(filepath.Join(dir, "store", "gone-"+name), p)
	case "directory":
		os.Mkdir(p, 0o755)
	case "empty":
		os.WriteFile(p, nil, 0o644)
	case "malformed":
		os.WriteFile(p, []byte("- command: \"unterminated\n  description: [1, 2\n"), 0o644)
	case "wrong-shape":
		os.WriteFile(p, []byte("command: tar\ndescription: not a list\n"), 0o644)
	case "binary":
		os.WriteFile(p, []byte{0x7f, 'E', 'L', 'F', 0, 1, 2, 0xff, 0xfe, 0x00, 0x80}, 0o644)
	case "unreadable":
		os.WriteFile(p, gen.EmitYAML(cmds), 0o644)
		os.Chmod(p, 0)
	}
	return p
}

func c15Judge(mainF, persF, backF string, cfg c15Config, out c15Outcome) string {
	where := fmt.Sprintf("main=%s personal=%s backup=%s config=%+v", mainF, persF, backF, cfg)
	switch mainF {
	case "unset", "dangling":
		mainF = "missing" // an empty path or a dangling link names no file: judged like a file that is not there
	case "symlink":
		mainF = "good"
	}
	switch persF {
	case "unset", "dangling":
		persF = "absent"
	case "symlink":
		persF = "good"
	}
	persCmds := c15PersonalCmds
	if c15AliasesMain(persF) {
		switch mainF {
		case "good":
			persF, persCmds = "good", c15MainCmds
		case "empty":
			persF = "empty"
		default:
			persF = "absent" // the main file does not load: the outcome is the fallback whatever the notebook is
		}
	}
	if out.Panic != "" {
		return "loading (or searching what it returned) crashed or hung: " + out.Panic + " (" + where + ")"
	}
	if out.DBNil || out.Err != "" {
		return fmt.Sprintf("loading ended with db=nil:%v err=%q; a usable database and no error are required (%s)", out.DBNil, out.Err, where)
	}
	mainLoads := mainF == "good" || mainF == "empty"
	persOK := persF == "absent" || persF == "good" || persF == "empty"
	if mainLoads && persOK {
		var want [][2]string
		if mainF == "good" {
			for _, c := range c15MainCmds {
				want = append(want, [2]string{c.Command, c.Description})
			}
		}
		if persF == "good" {
			for _, c := range persCmds {
				want = append(want, [2]string{c.Command, c.Description})
			}
		}
		if fmt.Sprint(out.Commands) != fmt.Sprint(want) {
			return fmt.Sprintf("both files are fine but the database is not main entries followed by notebook entries: got %v want %v (%s)", out.Commands, want, where)
		}
		if len(want) > 0 && !out.Searchable {
			return "the real database was returned but cannot be searched (" + where + ")"
		}
	} else {
		if len(out.Commands) == 0 {
			return "fallback database is empty (" + where + ")"
		}
		if !out.Searchable {
			return "fallback database cannot be searched (" + where + ")"
		}
		// "a non-empty built-in fallback": nothing read from the files on disk
		for _, c := range out.Commands {
			if c[0] == "backup entry" {
				return "the fallback is the content of the .backup file, not the built-in database (" + where + ")"
			}
			for _, m := range append(append([]database.Command{}, c15MainCmds...), c15PersonalCmds...) {
				if c[0] == m.Command {
					return fmt.Sprintf("the fallback database contains %q from the files on disk although they did not load together (%s)", c[0], where)
				}
			}
		}
	}
	maxA := cfg.MaxAttempts
	if maxA < 1 {
		maxA = 1
	}
	switch {
	case mainLoads && persOK:
		if out.Attempts != 1 {
			return fmt.Sprintf("a load that succeeds at once was attempted %d times (%s)", out.Attempts, where)
		}
	case mainF == "missing" || mainF == "unreadable" || (mainLoads && persF == "unreadable"):
		if out.Attempts != 1 {
			return fmt.Sprintf("a missing or permission-denied file was tried %d times, must be tried once (%s; last error %q)", out.Attempts, where, clip(out.LastErr))
		}
	default:
		if out.Attempts < 1 || out.Attempts > maxA {
			return fmt.Sprintf("%d load attempts, configured maximum %d (%s)", out.Attempts, maxA, where)
		}
	}
	prev := int64(-1)
	for i, d := range out.DelaysNs {
		if d < prev {
			return fmt.Sprintf("wait %d (%v) is shorter than the previous one (%v) (%s)", i+1, time.Duration(d), time.Duration(prev), where)
		}
		if d > cfg.MaxDelayUs*1000 {
			return fmt.Sprintf("wait %d (%v) exceeds the configured maximum %v (%s)", i+1, time.Duration(d), time.Duration(cfg.MaxDelayUs)*time.Microsecond, where)
		}
		prev = d
	}
	if len(out.DelaysNs) > out.Attempts {
		return fmt.Sprintf("%d waits for %d attempts (%s)", len(out.DelaysNs), out.Attempts, where)
	}
	return ""
}

func TestC15_Matrix(t *testing.T) {
	rec := stat.For("C15")
	rec.Rule("fault enumeration: every combination of main in {good, missing, directory, empty, malformed, wrong-shape, binary, unreadable} x personal in {absent, good, empty, malformed, directory, unreadable, unset, symlink, dangling, loop, the main file itself by path / hard link / symbolic link} x backup in {absent, good, malformed, empty} (complete per configuration) x retry configurations drawn by rapid (attempts 0..6, base 0..3ms, factor 1..4, cap 0..10ms incl. cap < base). Unreadable files are loaded in a child under uid 65534. Oracle: db != nil and err == nil; both files fine => main entries then notebook entries; else non-empty searchable fallback; attempts via the observer hook: success 1, missing/permission-denied 1, otherwise <= max(1,configured); waits non-decreasing and <= cap. Non-trivial = at least one faulty file.")
	rec.Set("exhaustive", true)
	self, _ := os.Executable()
	_ = self
	var rc struct {
		Config c15Config `json:"config"`
	}
	if replayCase("C15", "matrix", &rc) {
		c15Matrix(t, rec, rc.Config) // replay: the whole matrix under the saved configuration
		return
	}
	// corner configurations are always enumerated; rapid adds drawn ones
	for _, cfg := range []c15Config{
		{MaxAttempts: 0, BaseDelayUs: 10, MaxDelayUs: 100, BackoffFactor: 2},
		{MaxAttempts: 3, BaseDelayUs: 200, MaxDelayUs: 50, BackoffFactor: 2},
		{MaxAttempts: 3, BaseDelayUs: 100, MaxDelayUs: 5000, BackoffFactor: 2},
	} {
		c15Matrix(t, rec, cfg)
	}
	rapid.Check(t, func(t *rapid.T) {
		cfg := c15Config{
			MaxAttempts:   rapid.SampledFrom([]int{3, 1, 2, 0, -1, 4, 6}).Draw(t, "attempts"),
			BaseDelayUs:   int64(rapid.SampledFrom([]int{0, 1, 50, 500, 3000}).Draw(t, "base-us")),
			MaxDelayUs:    int64(rapid.SampledFrom([]int{0, 10, 100, 1000, 10000}).Draw(t, "cap-us")),
			BackoffFactor: rapid.SampledFrom([]float64{1, 1.5, 2, 4}).Draw(t, "factor"),
		}
		c15Matrix(t, rec, cfg)
	})
}

var c15MatrixCalls int

func c15Matrix(t gen.Fataler, rec *stat.Recorder, cfg c15Config) {
	{
		cj, _ := json.Marshal(cfg)
		c15MatrixCalls++
		cell := c15MatrixCalls // rotates the path style of every cell from one enumeration to the next
		home, _ := os.Getwd()
		for _, mainF := range c15MainFaults {
			for _, persF := range c15PersonalFaults {
				for _, backF := range c15BackupFaults {
					dir := mkdirWork("c15-")
					os.Chmod(dir, 0o755)
					mp := c15Materialise(dir, "commands.yml", mainF, c15MainCmds)
					pp := c15Materialise(dir, "personal.yml", persF, c15PersonalCmds)
					c15Materialise(dir, "commands.yml.backup", backF, []database.Command{{Command: "backup entry", Description: "from the backup file"}})
					var out c15Outcome
					label := "in-process"
					// the same files named in three ways: absolute, relative to the working directory, with a "./"
					cell++
					style := []string{"absolute", "relative", "dot-relative"}[cell%3]
					switch style {
					case "relative":
						mp, pp = "commands.yml", "personal.yml"
					case "dot-relative":
						mp, pp = "./commands.yml", "./personal.yml"
					}
					if mainF == "unset" {
						mp = "" // no path configured at all: a file that is not there
					}
					if persF == "unset" {
						pp = ""
					}
					switch persF {
					case "same-path":
						pp = mp
					case "hardlink-main": // fails (and leaves no notebook) when the main path names no file or a directory
						os.Link(filepath.Join(dir, "commands.yml"), filepath.Join(dir, "personal.yml"))
					case "symlink-main":
						os.Symlink("commands.yml", filepath.Join(dir, "personal.yml"))
					}
					if mainF == "unreadable" || persF == "unreadable" {
						label = "child-uid"
						r := proc.Run(proc.Cmd{Helper: "c15load", Args: []string{mp, pp, string(cj)}, UID: 65534, FSize: -1, Timeout: 60 * time.Second, Dir: dir})
						i := strings.Index(r.Stdout, "C15OUT ")
						if i < 0 {
							os.RemoveAll(dir)
							if strings.Contains(r.Err, "operation not permitted") || strings.Contains(r.Err, "permission denied") {
								rec.Case(false, map[string]any{"skipped": "cannot switch uid", "main": mainF, "personal": persF}, "uid-switch-unavailable")
								continue
							}
							t.Fatalf("child loader died: %+v", r)
						}
						line := r.Stdout[i+7:]
						if j := strings.IndexByte(line, '\n'); j >= 0 {
							line = line[:j]
						}
						if err := json.Unmarshal([]byte(line), &out); err != nil {
							t.Fatalf("harness: bad child output %q", line)
						}
					} else {
						if style != "absolute" {
							os.Chdir(dir)
						}
						out = c15Load(mp, pp, cfg)
						os.Chdir(home)
					}
					os.RemoveAll(dir)
					if msg := c15Judge(mainF, persF, backF, cfg, out); msg != "" {
						saveCase("C15", "matrix", map[string]any{"test": "TestC15_Matrix", "config": cfg, "main": mainF, "personal": persF, "backup": backF, "paths": style, "outcome": out, "message": msg})
						t.Fatalf("%s (paths given as %s: %q, %q)", msg, style, mp, pp)
					}
					faulty := !(mainF == "good" && (persF == "absent" || persF == "good") && backF != "malformed")
					rec.Case(faulty, map[string]any{"main": mainF, "personal": persF, "backup": backF, "paths": style, "config": cfg, "attempts": out.Attempts, "waits_ns": out.DelaysNs, "commands": len(out.Commands)}, label, "main:"+mainF, "personal:"+persF, "paths:"+style)
				}
			}
		}
	}
}

// TestC15_Transient: fault sequences — the main (or personal) file is broken for the first
// k attempts and repaired before attempt k+1 (the repair is done from the attempt observer,
// so the harness owns the fault schedule). Whenever an attempt is observed to succeed, the
// load must end with exactly that database, with no further attempts.
func TestC15_Transient(t *testing.T) {
	rec := stat.For("C15")
	rec.Rule("fault sequences: main or personal file broken (malformed / wrong shape / binary / directory) for the first k attempts and, from the attempt observer before attempt k+1, repaired / removed / broken in another way, under generated retry configurations. Oracle: if any attempt is observed to succeed, the result is the real database (main entries then notebook entries), err == nil, and no attempt follows the successful one; attempts <= max(1, configured); a main file that went missing is tried once more at most; waits monotone and capped.")
	rapid.Check(t, func(t *rapid.T) {
		cfg := c15Config{
			MaxAttempts:   rapid.IntRange(1, 5).Draw(t, "attempts"),
			BaseDelayUs:   int64(rapid.SampledFrom([]int{0, 1, 50, 500}).Draw(t, "base-us")),
			MaxDelayUs:    int64(rapid.SampledFrom([]int{0, 10, 100, 1000}).Draw(t, "cap-us")),
			BackoffFactor: rapid.SampledFrom([]float64{1, 2, 4}).Draw(t, "factor"),
		}
		which := rapid.SampledFrom([]string{"main", "main", "personal"}).Draw(t, "which")
		fault := rapid.SampledFrom([]string{"malformed", "wrong-shape", "binary", "directory"}).Draw(t, "fault")
		k := rapid.IntRange(1, 4).Draw(t, "repair-after")
		// what the file turns into before attempt k+1: repaired, gone, or broken in another way
		then := rapid.SampledFrom([]string{"repair", "repair", "missing", "missing", "other-fault"}).Draw(t, "then")
		fault2 := rapid.SampledFrom([]string{"malformed", "wrong-shape", "binary"}).Draw(t, "fault2")
		withPersonal := which == "personal" || rapid.Bool().Draw(t, "personal-present")
		dir := mkdirWork("c15t-")
		defer os.RemoveAll(dir)
		mp := filepath.Join(dir, "commands.yml")
		pp := filepath.Join(dir, "personal.yml")
		if which == "main" {
			c15Materialise(dir, "commands.yml", fault, c15MainCmds)
			if withPersonal {
				c15Materialise(dir, "personal.yml", "good", c15PersonalCmds)
			}
		} else {
			c15Materialise(dir, "commands.yml", "good", c15MainCmds)
			c15Materialise(dir, "personal.yml", fault, c15PersonalCmds)
		}
		broken, good := mp, c15MainCmds
		if which == "personal" {
			broken, good = pp, c15PersonalCmds
		}
		// while the notebook is the broken file, the (so far good) main file may change at the same
		// moment: other content, gone, or broken - a later attempt reads what is on disk THEN
		mainThen := "same"
		if which == "personal" {
			mainThen = rapid.SampledFrom([]string{"same", "same", "rewritten", "rewritten", "missing", "broken"}).Draw(t, "main-then")
		}
		mainNow := c15MainCmds
		var mainRewritten []database.Command
		for i := len(c15MainCmds) - 1; i >= 0; i-- {
			c := c15MainCmds[i]
			c.Command = "v2 " + c.Command
			mainRewritten = append(mainRewritten, c)
		}
		mainRewritten = append(mainRewritten, database.Command{Command: "v2 extra entry", Description: "added by the rewrite"})
		var out c15Outcome
		successAt := 0
		recovery.VerifSetObserver(&recovery.VerifObserver{
			Attempt: func(n int, err error) {
				out.Attempts++
				if err == nil && successAt == 0 {
					successAt = n
				}
				if err != nil {
					out.LastErr = err.Error()
					if n == k { // change the file before the next attempt
						os.RemoveAll(broken)
						switch then {
						case "repair":
							os.WriteFile(broken, gen.EmitYAML(good), 0o644)
						case "other-fault":
							c15Materialise(dir, filepath.Base(broken), fault2, good)
						}
						switch mainThen {
						case "rewritten":
							os.WriteFile(mp, gen.EmitYAML(mainRewritten), 0o644)
							mainNow = mainRewritten
						case "missing":
							os.Remove(mp)
							mainNow = nil
						case "broken":
							os.Remove(mp)
							c15Materialise(dir, "commands.yml", fault2, c15MainCmds)
							mainNow = nil
						}
					}
				}
			},
			Delay: func(n int, d time.Duration) { out.DelaysNs = append(out.DelaysNs, int64(d)) },
		})
		saved := os.Stdout
		os.Stdout = devNull
		dr := recovery.NewDatabaseRecovery(recovery.RetryConfig{MaxAttempts: cfg.MaxAttempts, BaseDelay: time.Duration(cfg.BaseDelayUs) * time.Microsecond,
			MaxDelay: time.Duration(cfg.MaxDelayUs) * time.Microsecond, BackoffFactor: cfg.BackoffFactor})
		db, err, ended := c15Watch(dr, mp, pp, 60*time.Second)
		os.Stdout = saved
		recovery.VerifSetObserver(nil)
		if !ended {
			t.Fatalf("loading did not end within 60 s (%s file %s, config %+v)", which, fault, cfg)
		}
		where := fmt.Sprintf("%s file %s until attempt %d, then %s (main file: %s), config=%+v, attempts seen=%d", which, fault, k, then, mainThen, cfg, out.Attempts)
		if then == "missing" && which == "personal" {
			withPersonal = false // a notebook that is merely absent: the real database is the main entries alone
		}
		if then == "missing" && which == "main" && out.Attempts > k+1 {
			t.Fatalf("the main file went missing after attempt %d, yet %d attempts were made: a missing file is tried once (%s)", k, out.Attempts, where)
		}
		if db == nil || err != nil {
			t.Fatalf("loading ended with db=nil:%v err=%v (%s)", db == nil, err, where)
		}
		if out.Attempts < 1 || out.Attempts > cfg.MaxAttempts {
			t.Fatalf("%d attempts, configured maximum %d (%s)", out.Attempts, cfg.MaxAttempts, where)
		}
		if successAt > k && mainNow == nil {
			t.Fatalf("attempt %d is reported as a success although the main file was %s after attempt %d: the result holds %d commands (%s)", successAt, mainThen, k, len(db.Commands), where)
		}
		// (claimed only when an attempt was actually made after the repair: the statement allows "at most"
		// the configured number of tries, so a loader that gives a malformed file up early and answers
		// from the built-in fallback is within it - false alarm against such a tree, DESIGN section 10)
		if successAt == 0 && k < cfg.MaxAttempts && out.Attempts > k && (mainThen == "same" || mainThen == "rewritten") && (then == "repair" || (then == "missing" && which == "personal")) {
			t.Fatalf("before attempt %d every file was loadable (the %s file %s), yet no attempt succeeded; last error: %s (%s)", k+1, which, map[string]string{"repair": "had been repaired", "missing": "was merely absent"}[then], out.LastErr, where)
		}
		if successAt > 0 {
			want := append([]database.Command{}, c15MainCmds...)
			if successAt > k {
				want = append([]database.Command{}, mainNow...) // read after the change: what the main file held then
			}
			if withPersonal {
				want = append(want, c15PersonalCmds...)
			}
			if len(db.Commands) != len(want) {
				t.Fatalf("attempt %d loaded the repaired files, yet the result holds %d commands instead of the %d real ones (fallback returned?) (%s)", successAt, len(db.Commands), len(want), where)
			}
			for i := range want {
				if db.Commands[i].Command != want[i].Command {
					t.Fatalf("attempt %d succeeded but entry %d is %q, want %q (%s)", successAt, i, db.Commands[i].Command, want[i].Command, where)
				}
			}
			if out.Attempts != successAt {
				t.Fatalf("attempt %d succeeded but %d attempts were made (%s)", successAt, out.Attempts, where)
			}
		} else if len(db.Commands) == 0 {
			t.Fatalf("fallback database is empty (%s)", where)
		}
		prev := int64(-1)
		for i, d := range out.DelaysNs {
			if d < prev || d > cfg.MaxDelayUs*1000 {
				t.Fatalf("wait %d = %v after %v, cap %v (%s)", i+1, time.Duration(d), time.Duration(prev), time.Duration(cfg.MaxDelayUs)*time.Microsecond, where)
			}
			prev = d
		}
		label := "transient-recovered"
		if successAt == 0 {
			label = "transient-budget-exhausted"
		}
		rec.Case(true, map[string]any{"transient": which, "fault": fault, "changed_after_attempt": k, "then": then, "config": cfg, "attempts": out.Attempts, "success_at": successAt, "main_then": mainThen}, "transient", label, "then:"+then, "main-then:"+mainThen)
	})
}

// TestC15_LongBudget: retry budgets far beyond the handful of attempts of the default
// policy, with base delays from nanoseconds to hours under a small cap - the wait schedule
// is computed, not slept through, for dozens of steps.
func TestC15_LongBudget(t *testing.T) {
	rec := stat.For("C15")
	rec.Rule("long budgets: a main file that stays malformed, MaxAttempts in [20,200], base delay from 1 ns to 1000 h, cap in {0, 1us, 50us, 200us}, factor in {1, 1.5, 2, 3, 10, 1e6}; a quarter of the cases with base 0 .. 1 h and a factor below 1, zero, negative, NaN, infinite or overflowing (0.5, 0.9, 0.999, 0, -2, NaN, +-Inf, 1e200, 1e308, 5e-324). Oracle: between 1 and MaxAttempts attempts, a non-empty fallback and no error; every wait within [0, cap] and never below the one before it.")
	rapid.Check(t, func(t *rapid.T) {
		cfg := recovery.RetryConfig{
			MaxAttempts:   rapid.OneOf(rapid.SampledFrom([]int{37, 38, 39, 40, 41, 63, 64, 65, 66, 100, 200}), rapid.IntRange(20, 120)).Draw(t, "attempts"),
			BaseDelay:     rapid.SampledFrom([]time.Duration{1, time.Microsecond, 10 * time.Millisecond, 100 * time.Millisecond, time.Second, time.Hour, 1000 * time.Hour}).Draw(t, "base"),
			MaxDelay:      rapid.SampledFrom([]time.Duration{0, time.Microsecond, 50 * time.Microsecond, 200 * time.Microsecond}).Draw(t, "cap"),
			BackoffFactor: rapid.SampledFrom([]float64{1, 1.5, 2, 2, 3, 10, 1e6}).Draw(t, "factor"),
		}
		odd := false
		if rapid.IntRange(0, 3).Draw(t, "odd-config") == 0 {
			// any configuration: no base delay at all, a factor that shrinks the waits, is zero, negative,
			// not a number, or overflows within a few steps - the waits are still a non-decreasing
			// sequence inside [0, cap]
			odd = true
			cfg.BaseDelay = rapid.SampledFrom([]time.Duration{0, 0, 1, 3 * time.Microsecond, 100 * time.Microsecond, time.Hour}).Draw(t, "odd-base")
			cfg.BackoffFactor = rapid.SampledFrom([]float64{0.5, 0.9, 0.999, 0, -2, math.NaN(), math.Inf(1), math.Inf(-1), 1e200, 1e308, 5e-324}).Draw(t, "odd-factor")
		}
		dir := mkdirWork("c15l-")
		defer os.RemoveAll(dir)
		mp := c15Materialise(dir, "commands.yml", rapid.SampledFrom([]string{"malformed", "wrong-shape", "binary"}).Draw(t, "fault"), c15MainCmds)
		attempts := 0
		var waits []time.Duration
		recovery.VerifSetObserver(&recovery.VerifObserver{
			Attempt: func(n int, err error) { attempts++ },
			Delay:   func(n int, d time.Duration) { waits = append(waits, d) },
		})
		saved := os.Stdout
		os.Stdout = devNull
		db, err, ended := c15Watch(recovery.NewDatabaseRecovery(cfg), mp, filepath.Join(dir, "personal.yml"), 60*time.Second)
		os.Stdout = saved
		recovery.VerifSetObserver(nil)
		if !ended {
			t.Fatalf("loading did not end within 60 s (config %+v; the waits sum to at most %v)", cfg, time.Duration(cfg.MaxAttempts)*cfg.MaxDelay)
		}
		if err != nil || db == nil || len(db.Commands) == 0 {
			t.Fatalf("loading ended with err=%v and no usable fallback (config %+v)", err, cfg)
		}
		// "at most the configured number of times": a loader that gives a malformed file up earlier is within
		// the statement (demanding exactly MaxAttempts was a false alarm against such a tree, DESIGN section 10)
		if attempts < 1 || attempts > cfg.MaxAttempts {
			t.Fatalf("%d attempts on a file that stays malformed, configured %d (config %+v)", attempts, cfg.MaxAttempts, cfg)
		}
		prev := time.Duration(0)
		for i, d := range waits {
			if d < 0 || d > cfg.MaxDelay || d < prev {
				t.Fatalf("wait %d of %d is %v after %v (cap %v): waits never decrease and never exceed the cap; config %+v\n waits=%v", i+1, len(waits), d, prev, cfg.MaxDelay, cfg, waits)
			}
			prev = d
		}
		rec.Case(true, map[string]any{"long_budget": true, "attempts": attempts, "base": cfg.BaseDelay.String(), "cap": cfg.MaxDelay.String(), "factor": cfg.BackoffFactor, "waits": len(waits)}, "long-budget", map[bool]string{true: "odd-retry-config", false: "ordinary-retry-config"}[odd])
	})
}

// TestC15_Schedule: the wait schedule of a retry policy, computed through the accessor hook and
// never slept through, so that caps and base delays of days, years or "no cap at all"
// (math.MaxInt64) are reachable: the values where float64 arithmetic stops being exact (2^53)
// and where a conversion back to time.Duration overflows (2^63).
func TestC15_Schedule(t *testing.T) {
	rec := stat.For("C15")
	rec.Rule("wait schedules (computed, not slept): base delay and cap drawn from {0, 1 ns .. 1000 h, 2^53-1 .. 2^53+5, 2^62, 2^63-1025 .. 2^63-1 (math.MaxInt64, 'no cap')} and from all of int64 (negative base included, cap >= 0), factor from {1, 1+1e-9, 1.5, 2, 10, 1e6} and the odd ones (below 1, 0, negative, NaN, +-Inf, 1e200, 1e308, 5e-324), attempts 1..400 asked in order. Oracle: every wait within [0, cap] and never below the one before it. Non-trivial = cap or base above 2^53, or an odd factor.")
	rapid.Check(t, func(t *rapid.T) {
		big := []int64{1 << 53, 1<<53 - 1, 1<<53 + 1, 1<<53 + 3, 1<<53 + 5, 1 << 62, 1<<62 + 1, math.MaxInt64 - 1025, math.MaxInt64 - 1024, math.MaxInt64 - 513, math.MaxInt64 - 512, math.MaxInt64 - 511, math.MaxInt64 - 1, math.MaxInt64, math.MaxInt64 / 3, int64(1e18), int64(9e18)}
		small := []int64{0, 1, 2, 3, 1000, int64(time.Millisecond), int64(time.Second), int64(time.Hour), int64(1000 * time.Hour), int64(2500 * time.Hour)}
		dur := func(label string, min int64) int64 {
			switch rapid.IntRange(0, 3).Draw(t, label+"-kind") {
			case 0:
				return rapid.SampledFrom(small).Draw(t, label)
			case 1, 2:
				return rapid.SampledFrom(big).Draw(t, label)
			}
			return rapid.Int64Range(min, math.MaxInt64).Draw(t, label)
		}
		cfg := recovery.RetryConfig{
			MaxAttempts:   rapid.IntRange(1, 400).Draw(t, "attempts"),
			BaseDelay:     time.Duration(dur("base", math.MinInt64)),
			MaxDelay:      time.Duration(dur("cap", 0)),
			BackoffFactor: rapid.SampledFrom([]float64{1, 1, 1 + 1e-9, 1.5, 2, 2, 10, 1e6, 0.5, 0.999, 0, -2, math.NaN(), math.Inf(1), math.Inf(-1), 1e200, 1e308, 5e-324}).Draw(t, "factor"),
		}
		dr := recovery.NewDatabaseRecovery(cfg)
		prev := time.Duration(0)
		var waits []time.Duration
		for a := 1; a <= cfg.MaxAttempts; a++ {
			d := recovery.VerifCalculateDelay(dr, a)
			waits = append(waits, d)
			if d < 0 || d > cfg.MaxDelay || d < prev {
				if len(waits) > 12 {
					waits = waits[len(waits)-12:]
				}
				t.Fatalf("wait after attempt %d is %v (%d ns) after %v, cap %v (%d ns): waits never decrease and never exceed the cap; config %+v\n last waits=%v", a, d, int64(d), prev, cfg.MaxDelay, int64(cfg.MaxDelay), cfg, waits)
			}
			prev = d
		}
		huge := int64(cfg.MaxDelay) > 1<<53 || int64(cfg.BaseDelay) > 1<<53
		odd := !(cfg.BackoffFactor >= 1) || cfg.BackoffFactor > 1e100
		labels := []string{"schedule"}
		if huge {
			labels = append(labels, "beyond-2^53")
		}
		if cfg.MaxDelay == math.MaxInt64 {
			labels = append(labels, "no-cap")
		}
		if odd {
			labels = append(labels, "odd-retry-config")
		}
		if prev == cfg.MaxDelay && prev > 0 {
			labels = append(labels, "cap-reached")
		}
		rec.Case(huge || odd, map[string]any{"schedule": true, "attempts": cfg.MaxAttempts, "base_ns": int64(cfg.BaseDelay), "cap_ns": int64(cfg.MaxDelay), "factor": fmt.Sprint(cfg.BackoffFactor), "last_wait_ns": int64(prev)}, labels...)
	})
}
