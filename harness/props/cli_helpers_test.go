package props

import (
	"encoding/json"
	"fmt"
	"os"
	"regexp"
	"strings"
	"time"

	"github.com/Vedant9500/WTF/verifharness/gen"
	"github.com/Vedant9500/WTF/verifharness/proc"
)

// cliItem is one printed search result.
type cliItem struct {
	Command     string   `json:"command"`
	Description string   `json:"description"`
	Keywords    []string `json:"keywords,omitempty"`
	Category    string   `json:"category,omitempty"`
	Platforms   []string `json:"platforms,omitempty"`
	Score       float64  `json:"score,omitempty"`
}

func needWtf(t interface{ Skip(...any) }) string {
	w := proc.Wtf()
	if w == "" {
		t.Skip("VERIF_WTF not set (binary checks run through ./check)")
	}
	return w
}

// runWtf runs the built binary in the isolated home with cwd dir.
func runWtf(h *proc.Home, dir string, args []string, extraEnv ...string) proc.Result {
	return proc.Run(proc.Cmd{Path: proc.Wtf(), Args: args, Env: h.Env(extraEnv...), Dir: dir, Timeout: 30 * time.Second, FSize: -1})
}

var numbered = regexp.MustCompile(`^(\d+)\. (.*)$`)

// parseList extracts (command, description) pairs from the list format (no colour).
func parseList(stdout string) []cliItem {
	var out []cliItem
	lines := strings.Split(stdout, "\n")
	for i := 0; i < len(lines); i++ {
		m := numbered.FindStringSubmatch(lines[i])
		if m == nil {
			continue
		}
		it := cliItem{Command: m[2]}
		if i+1 < len(lines) && strings.HasPrefix(lines[i+1], "   Description: ") {
			it.Description = strings.TrimPrefix(lines[i+1], "   Description: ")
		} else if i+1 < len(lines) && strings.HasPrefix(lines[i+1], "   📝 ") {
			it.Description = strings.TrimPrefix(lines[i+1], "   📝 ")
		} else {
			continue // e.g. "1. step" lines of the pipeline breakdown
		}
		out = append(out, it)
	}
	return out
}

// parseJSONBlock decodes the JSON result block: the first line that is exactly "[" or
// "[]" starts it; nothing but the optional timing line may follow it.
func parseJSONBlock(stdout string) ([]cliItem, error) {
	idx := -1
	off := 0
	for _, line := range strings.SplitAfter(stdout, "\n") {
		l := strings.TrimRight(line, "\n")
		if l == "[" || l == "[]" {
			idx = off
			break
		}
		off += len(line)
	}
	if idx < 0 {
		return nil, fmt.Errorf("no JSON array start in output")
	}
	dec := json.NewDecoder(strings.NewReader(stdout[idx:]))
	var raw []json.RawMessage
	if err := dec.Decode(&raw); err != nil {
		return nil, fmt.Errorf("result block is not a JSON array: %v", err)
	}
	items := make([]cliItem, len(raw))
	for i, r := range raw {
		var obj map[string]json.RawMessage
		if err := json.Unmarshal(r, &obj); err != nil {
			return nil, fmt.Errorf("element %d is not a JSON object: %v", i, err)
		}
		if err := json.Unmarshal(r, &items[i]); err != nil {
			return nil, fmt.Errorf("element %d has wrongly typed fields: %v", i, err)
		}
		if _, ok := obj["command"]; !ok {
			return nil, fmt.Errorf("element %d has no command field", i)
		}
	}
	rest := stdout[idx+int(dec.InputOffset()):]
	for _, l := range strings.Split(rest, "\n") {
		if strings.TrimSpace(l) == "" || strings.HasPrefix(l, "Search completed in ") {
			continue
		}
		return nil, fmt.Errorf("unexpected text after the JSON block: %q", l)
	}
	return items, nil
}

// stripTiming removes the run-dependent timing line.
func stripTiming(s string) string {
	var out []string
	for _, l := range strings.Split(s, "\n") {
		if strings.HasPrefix(l, "Search completed in ") {
			continue
		}
		out = append(out, l)
	}
	return strings.Join(out, "\n")
}

// mkdirWork creates a scratch directory for one case.
func mkdirWork(prefix string) string {
	d, err := os.MkdirTemp(gen.WorkDir(), prefix)
	if err != nil {
		panic(err)
	}
	return d
}

// saidSaved tells whether a `wtf save` / `save-pipeline` run reported success. Both commands end with
// status 0 either way, so the report is the text: a line that speaks of success and none that speaks of
// an error or failure. (Matching today's exact sentence "... saved successfully!" was a false alarm
// against a tree that words a replacement as "updated successfully", DESIGN section 10.) An empty
// okLine means the run under test is not a save (always true, as strings.Contains(s, "") was).
func saidSaved(stdout, okLine string) bool {
	if okLine == "" {
		return true
	}
	low := strings.ToLower(stdout)
	return strings.Contains(low, "success") && !strings.Contains(low, "error saving") && !strings.Contains(low, "failed to save") && !strings.Contains(low, "could not save")
}
