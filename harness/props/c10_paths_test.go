package props

import (
	"fmt"
	"os"
	"path/filepath"
	"strings"
	"testing"
	"time"

	"github.com/Vedant9500/WTF/internal/database"
	"github.com/Vedant9500/WTF/internal/recovery"
	"github.com/Vedant9500/WTF/verifharness/gen"
	"github.com/Vedant9500/WTF/verifharness/stat"
	"pgregory.net/rapid"
)

// c10Place puts a database "file" of the given kind under dir and returns the path to hand to the
// loader. The kinds are the ways a path can fail other than by its content: the file system's
// errors (ENOENT, ENOTDIR, ENAMETOOLONG, ELOOP, EISDIR, EINVAL) next to readable and empty files.
func c10Place(dir, name, kind string, cmds []database.Command) string {
	p := filepath.Join(dir, name)
	switch kind {
	case "good":
		os.WriteFile(p, gen.EmitYAML(cmds), 0o644)
	case "empty":
		os.WriteFile(p, nil, 0o644)
	case "missing":
	case "under-a-file": // a path component that is a regular file
		os.WriteFile(p+".d", []byte("x"), 0o644)
		return filepath.Join(p+".d", name)
	case "under-a-missing-directory":
		return filepath.Join(dir, "no-such-dir", name)
	case "name-too-long":
		return filepath.Join(dir, strings.Repeat("n", 300)+".yml")
	case "path-too-long":
		return filepath.Join(dir, strings.Repeat("d/", 2100)+name)
	case "link-loop":
		os.Symlink(name, p)
	case "dangling-link":
		os.Symlink("c10-nowhere", p)
	case "directory":
		os.Mkdir(p, 0o755)
	case "nul-in-name":
		return filepath.Join(dir, "a\x00b.yml")
	case "empty-path":
		return ""
	case "link-to-good":
		os.WriteFile(p+".real", gen.EmitYAML(cmds), 0o644)
		os.Symlink(name+".real", p)
	case "fifo-less-device": // a character device: reads give nothing or never end for some; /dev/null reads as empty
		return "/dev/null"
	}
	return p
}

var c10PathKinds = []string{"good", "good", "good", "empty", "missing", "under-a-file", "under-a-missing-directory", "name-too-long", "path-too-long", "link-loop", "dangling-link", "directory", "nul-in-name", "empty-path", "link-to-good", "fifo-less-device"}

// TestC10_Paths: loading never panics or hangs whatever the PATHS are - not only whatever the
// bytes are. Main and notebook path of every kind, through each loader the CLI uses.
func TestC10_Paths(t *testing.T) {
	rec := stat.For("C10")
	rec.Rule("(paths) main and notebook path each of a kind in {readable list, empty file, missing, below a regular file (ENOTDIR), below a missing directory, 300-byte name (ENAMETOOLONG), path beyond PATH_MAX, link to itself (ELOOP), dangling link, directory, NUL in the name, empty string, link to a readable list, /dev/null}, loaded through LoadDatabase, LoadDatabaseWithPersonal and the retrying LoadDatabaseWithFallback (1-2 attempts, microsecond waits), then searched. Oracle: every call returns within 60 s without a panic; a loader returns a database or an error; with two readable lists LoadDatabaseWithPersonal returns main entries then notebook entries; the fallback loader returns a database and no error. Non-trivial = at least one path is of a failing kind other than plain missing.")
	mainCmds := []database.Command{{Command: "ls -la", Description: "list files"}, {Command: "tar czf a.tgz d", Description: "compress directory"}}
	persCmds := []database.Command{{Command: "my backup", Description: "personal backup routine"}}
	saved, devNullFile := os.Stdout, devNull
	rapid.Check(t, func(t *rapid.T) {
		dir := mkdirWork("c10p-")
		defer os.RemoveAll(dir)
		mk := rapid.SampledFrom(c10PathKinds).Draw(t, "main-kind")
		pk := rapid.SampledFrom(c10PathKinds).Draw(t, "notebook-kind")
		mp := c10Place(dir, "commands.yml", mk, mainCmds)
		pp := c10Place(dir, "personal.yml", pk, persCmds)
		where := fmt.Sprintf("main path kind %s, notebook path kind %s", mk, pk)
		type out struct {
			db  *database.Database
			err error
			p   any
		}
		run := func(what string, f func() (*database.Database, error)) out {
			ch := make(chan out, 1)
			go func() {
				var o out
				defer func() {
					if p := recover(); p != nil {
						o.p = p
					}
					ch <- o
				}()
				o.db, o.err = f()
			}()
			select {
			case o := <-ch:
				if o.p != nil {
					os.Stdout = saved
					t.Fatalf("%s panicked: %v (%s)", what, o.p, where)
				}
				if o.db == nil && o.err == nil {
					os.Stdout = saved
					t.Fatalf("%s returned neither a database nor an error (%s)", what, where)
				}
				return o
			case <-time.After(60 * time.Second):
				os.Stdout = saved
				t.Fatalf("%s did not return within 60 s (%s)", what, where)
			}
			return out{}
		}
		os.Stdout = devNullFile
		run("LoadDatabase(main)", func() (*database.Database, error) { return database.LoadDatabase(mp) })
		run("LoadDatabase(notebook)", func() (*database.Database, error) { return database.LoadDatabase(pp) })
		both := run("LoadDatabaseWithPersonal", func() (*database.Database, error) { return database.LoadDatabaseWithPersonal(mp, pp) })
		cfg := recovery.RetryConfig{MaxAttempts: rapid.IntRange(1, 2).Draw(t, "attempts"), BaseDelay: time.Microsecond, MaxDelay: 5 * time.Microsecond, BackoffFactor: 2}
		fb := run("LoadDatabaseWithFallback", func() (*database.Database, error) {
			return recovery.NewDatabaseRecovery(cfg).LoadDatabaseWithFallback(mp, pp)
		})
		os.Stdout = saved
		readable := func(k string) bool { return k == "good" || k == "link-to-good" }
		if readable(mk) && readable(pk) {
			if both.err != nil || len(both.db.Commands) != len(mainCmds)+len(persCmds) || both.db.Commands[0].Command != mainCmds[0].Command || both.db.Commands[len(mainCmds)].Command != persCmds[0].Command {
				t.Fatalf("two readable lists: LoadDatabaseWithPersonal gives err=%v and %d entries, want main entries then notebook entries (%s)", both.err, dbLen(both.db), where)
			}
		}
		if fb.err != nil || fb.db == nil {
			t.Fatalf("LoadDatabaseWithFallback ended with err=%v and %d entries: a searchable database and no error is promised (%s)", fb.err, dbLen(fb.db), where)
		}
		for _, d := range []*database.Database{both.db, fb.db} {
			if d == nil {
				continue
			}
			if p := c10Exercise(d, "list files backup", database.SearchOptions{Limit: 5, UseFuzzy: true, UseNLP: true}); p != nil {
				t.Fatalf("searching the loaded database panicked: %v (%s)", p, where)
			}
		}
		hard := func(k string) bool { return !readable(k) && k != "missing" && k != "empty" }
		labels := []string{"paths", "main:" + mk, "notebook:" + pk}
		if both.err == nil {
			labels = append(labels, "loaded")
		} else {
			labels = append(labels, "rejected")
		}
		rec.Case(hard(mk) || hard(pk), map[string]any{"main_kind": mk, "notebook_kind": pk}, labels...)
	})
}

func dbLen(d *database.Database) int {
	if d == nil {
		return -1
	}
	return len(d.Commands)
}
