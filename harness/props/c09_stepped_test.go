package props

import (
	"bytes"
	"encoding/json"
	"fmt"
	"os"
	"os/exec"
	"path/filepath"
	"strings"
	"syscall"
	"testing"
	"time"
	"unsafe"

	"github.com/Vedant9500/WTF/internal/database"
	"github.com/Vedant9500/WTF/verifharness/gen"
	"github.com/Vedant9500/WTF/verifharness/proc"
	"github.com/Vedant9500/WTF/verifharness/stat"
	"pgregory.net/rapid"
)

// prlimitFSize sets RLIMIT_FSIZE of another process (prlimit64(2)).
func prlimitFSize(pid int, n uint64) error {
	var hard syscall.Rlimit
	syscall.Getrlimit(syscall.RLIMIT_FSIZE, &hard)
	lim := syscall.Rlimit{Cur: n, Max: hard.Max}
	if n > hard.Max {
		lim.Cur = hard.Max
	}
	_, _, e := syscall.RawSyscall6(syscall.SYS_PRLIMIT64, uintptr(pid), uintptr(syscall.RLIMIT_FSIZE), uintptr(unsafe.Pointer(&lim)), 0, 0, 0)
	if e != 0 {
		return e
	}
	return nil
}

// TestC09_SteppedLimit: a disk that hovers at full - the write is cut short at byte k1, room appears,
// it is cut short again at byte k2, then room is plentiful. The byte-limit tiers use one fixed limit
// per run; here the limit of the RUNNING process is raised in steps, each time the file being written
// has grown to the limit in force. Whatever the program does about short writes (give up, resume),
// the notebook afterwards is the complete old or the complete new content.
func TestC09_SteppedLimit(t *testing.T) {
	needWtf(t)
	rec := stat.For("C09")
	rec.Rule("(stepped limit) `wtf save` / `save-pipeline` onto a notebook of 2-12 entries with long descriptions, started under RLIMIT_FSIZE=k1 (SIGXFSZ ignored: writes beyond it are cut short / fail with EFBIG); a watcher raises the running process's limit to k2 > k1 once a file in the notebook's directory has reached k1 bytes, and lifts it once one has reached k2 (polling every 200 us, for up to 1.5 s after the first stop). Oracle: the notebook afterwards is byte-for-byte the old content or the content the same save produces without faults; a reported success means the new content; the old entries load. Non-trivial = the limit took effect (the save failed and left the old content, or a file of exactly k1 bytes was seen).")
	rapid.Check(t, func(t *rapid.T) {
		dir := mkdirWork("c09s-")
		defer os.RemoveAll(dir)
		base, _ := proc.NewHome(dir)
		n := rapid.IntRange(2, 12).Draw(t, "old-entries")
		var pre []database.Command
		for i := 0; i < n; i++ {
			pre = append(pre, database.Command{Command: fmt.Sprintf("tool%d --flag value%d", i, i*7), Description: strings.Repeat(fmt.Sprintf("words about entry %d ", i), rapid.IntRange(3, 25).Draw(t, "desc-rep"))})
		}
		os.MkdirAll(filepath.Dir(base.Notebook()), 0o755)
		os.WriteFile(base.Notebook(), gen.EmitYAML(pre), 0o644)
		args := []string{"save", "--", "brand new command", "a description of some length for the new entry"}
		if rapid.IntRange(0, 2).Draw(t, "pipeline") == 0 {
			args = []string{"save-pipeline", "--", "newpipe", "cat x | sort | uniq -c"}
		}
		// the other file the tool rewrites: the search history, rewritten by every search
		hist := rapid.IntRange(0, 2).Draw(t, "history-target") == 0
		target := base.Notebook()
		var oldQueries []string
		if hist {
			target = base.History()
			dbp := filepath.Join(dir, "db.yml")
			os.WriteFile(dbp, gen.EmitYAML(c08Main), 0o644)
			var sb strings.Builder
			sb.WriteString(`{"entries":[`)
			for i := 0; i < 3*n; i++ {
				q := fmt.Sprintf("earlier question number %d about files and disks", i)
				oldQueries = append(oldQueries, q)
				if i > 0 {
					sb.WriteString(",")
				}
				fmt.Fprintf(&sb, `{"query":%q,"timestamp":"2024-01-02T03:04:%02dZ","results_count":%d}`, q, i%60, i%7)
			}
			sb.WriteString(`],"max_size":100}`)
			os.MkdirAll(filepath.Dir(target), 0o755)
			os.WriteFile(target, []byte(sb.String()), 0o644)
			args = []string{"--no-color", "-d", dbp, "--", "compress directory"}
		}
		// the two legal outcomes: the file as it is, and as an unfaulted run of the same command leaves it
		ref, _ := proc.NewHome(dir)
		refTarget := ref.Notebook()
		if hist {
			refTarget = ref.History()
		}
		os.MkdirAll(filepath.Dir(refTarget), 0o755)
		old := readOrNil(target)
		os.WriteFile(refTarget, old, 0o644)
		if r := runWtf(ref, dir, args); !hist && !saidSaved(r.Stdout, "save") {
			t.Fatalf("harness: unfaulted save failed: %s %s", r.Stdout, r.Stderr)
		}
		want := readOrNil(refTarget)
		if len(want) < 200 || bytes.Equal(want, old) {
			t.Fatalf("harness: unfaulted run left %d bytes (old %d)", len(want), len(old))
		}
		k1 := rapid.IntRange(1, len(want)-2).Draw(t, "k1")
		k2 := rapid.IntRange(k1+1, len(want)-1).Draw(t, "k2")
		self, _ := os.Executable()
		cmd := exec.Command(self, append([]string{proc.Wtf()}, args...)...)
		cmd.Env = append(base.Env(), "VERIF_HELPER=rlimit", "VERIF_RLIMIT_SOFT=1", fmt.Sprintf("VERIF_RLIMIT_FSIZE=%d", k1))
		cmd.Dir = dir
		var so bytes.Buffer
		cmd.Stdout, cmd.Stderr = &so, &so
		if err := cmd.Start(); err != nil {
			t.Fatalf("harness: %v", err)
		}
		done := make(chan error, 1)
		go func() { done <- cmd.Wait() }()
		nbDir := filepath.Dir(target)
		biggestOther := func() int64 {
			var m int64 = -1
			ents, _ := os.ReadDir(nbDir)
			for _, e := range ents {
				if e.Name() == filepath.Base(target) {
					continue
				}
				if fi, err := e.Info(); err == nil && fi.Size() > m {
					m = fi.Size()
				}
			}
			if fi, err := os.Stat(target); err == nil && fi.Size() != int64(len(old)) && fi.Size() > m {
				m = fi.Size() // a program that writes the notebook in place
			}
			return m
		}
		stage, reached1, reached2 := 0, false, false
		deadline := time.Now().Add(20 * time.Second)
		var firstStop time.Time
		exited := false
		for !exited {
			select {
			case <-done:
				exited = true
				continue
			default:
			}
			sz := biggestOther()
			switch {
			case stage == 0 && sz == int64(k1):
				reached1, stage, firstStop = true, 1, time.Now()
				if err := prlimitFSize(cmd.Process.Pid, uint64(k2)); err != nil {
					t.Fatalf("harness: prlimit: %v", err)
				}
			case stage == 1 && sz == int64(k2):
				reached2, stage = true, 2
				prlimitFSize(cmd.Process.Pid, ^uint64(0))
			case stage == 1 && time.Since(firstStop) > 1500*time.Millisecond:
				stage = 2 // nothing was resumed: stop stepping
				prlimitFSize(cmd.Process.Pid, ^uint64(0))
			}
			if time.Now().After(deadline) {
				cmd.Process.Kill()
				<-done
				t.Fatalf("`wtf %q` under a stepped file-size limit (%d, then %d of %d bytes) did not finish within 20 s", args, k1, k2, len(want))
			}
			time.Sleep(200 * time.Microsecond)
		}
		out := so.String()
		if strings.Contains(out, "panic:") || strings.Contains(out, "fatal error:") {
			t.Fatalf("`wtf %q` crashed under a stepped file-size limit: %s", args, clip(out))
		}
		got := readOrNil(target)
		state := ""
		var newLog struct {
			Entries []struct {
				Query string `json:"query"`
			} `json:"entries"`
		}
		switch {
		case bytes.Equal(got, want):
			state = "new"
		case bytes.Equal(got, old):
			state = "old"
		case hist && json.Unmarshal(got, &newLog) == nil && len(newLog.Entries) == len(oldQueries)+1 && newLog.Entries[len(oldQueries)].Query == "compress directory" && func() bool {
			for i, q := range oldQueries {
				if newLog.Entries[i].Query != q {
					return false
				}
			}
			return true
		}():
			state = "new" // (the new entry's time stamp and duration differ from the reference run's)
		default:
			t.Fatalf("after a save whose write was cut short at byte %d, resumed room up to byte %d and then unlimited (new content %d bytes; limits reached: %v %v) the file holds %d bytes that are neither the old (%d) nor the new content; the run printed: %s\n notebook now: %+q", k1, k2, len(want), reached1, reached2, len(got), len(old), clip(out), clip(string(got)))
		}
		if hist {
			rec.Case(reached1 || state == "old", map[string]any{"target": "history", "k1": k1, "k2": k2, "new_bytes": len(want), "state": state, "reached_first": reached1, "reached_second": reached2}, "stepped-limit", "stepped-history:"+state)
			return
		}
		if saidSaved(out, "save") && state != "new" {
			t.Fatalf("the save reported success but the notebook still holds the old content (limits %d, %d of %d bytes): %s", k1, k2, len(want), clip(out))
		}
		if db, err := database.LoadDatabase(base.Notebook()); err != nil || len(db.Commands) < n {
			t.Fatalf("after the event the notebook loads with err=%v and %d entries, %d were saved earlier", err, dbLen(db), n)
		}
		labels := []string{"stepped-limit", "stepped:" + state}
		if reached2 {
			labels = append(labels, "second-limit-reached")
		}
		rec.Case(reached1 || state == "old", map[string]any{"k1": k1, "k2": k2, "new_bytes": len(want), "state": state, "reached_first": reached1, "reached_second": reached2}, labels...)
	})
}
