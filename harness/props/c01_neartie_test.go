package props

import (
	"math"
	"testing"

	"github.com/Vedant9500/WTF/internal/database"
	"github.com/Vedant9500/WTF/verifharness/gen"
	"github.com/Vedant9500/WTF/verifharness/stat"
	"pgregory.net/rapid"
)

// TestC01_SoughtNearTies: score orders that only go wrong when two scores are a few units in the
// last place apart are not met by chance, so the generator LOOKS for them: two entries, one lifted
// by the language stage (it holds a word that stage knows), the other by a context weight on a word
// of its own; the weight is bisected until the two scores cross, and the searches at the crossing
// (the two adjacent weights and a few neighbours) are judged by the same validity predicate as
// every other C01 case. The oracle is unchanged; only the input is sought.
func TestC01_SoughtNearTies(t *testing.T) {
	rec := stat.For("C01")
	rec.Rule("(sought near-ties) two- to four-entry databases {<known> <x>, <x> <y>, ...}, query '<known> <x> <y>', language stage on or off, typo fallback off, a context weight on <y> bisected in [1, 1e6] (<= 80 steps) to the point where the scores of the two entries cross; then the searches at both ends of the final bracket and at 6 neighbouring weights. Oracle: validList (bound, membership, no duplicate, finite >= 0 scores, non-increasing order) on every one of them. Non-trivial = a crossing was found and the two scores at it differ by less than 1e-9 (relative).")
	known := []string{"git", "docker", "compress", "find", "list", "tar", "delete", "network", "install", "copy"}
	nonsense := []string{"zeta", "qux", "vorn", "plix", "dram", "skeb"}
	calibrateDefaults()
	if c01DefErr != "" {
		t.Fatalf("%s", c01DefErr)
	}
	rapid.Check(t, func(t *rapid.T) {
		k := rapid.SampledFrom(known).Draw(t, "known-word")
		xy := rapid.SliceOfNDistinct(rapid.SampledFrom(nonsense), 2, 2, func(s string) string { return s }).Draw(t, "own-words")
		x, y := xy[0], xy[1]
		cmds := []database.Command{{Command: x + " " + y, Description: rapid.SampledFrom([]string{"", "does things", y + " helper"}).Draw(t, "desc-a")},
			{Command: k + " " + x, Description: rapid.SampledFrom([]string{"", "does things", k + " wrapper"}).Draw(t, "desc-b")}}
		if rapid.Bool().Draw(t, "order") {
			cmds[0], cmds[1] = cmds[1], cmds[0]
		}
		for i := rapid.IntRange(0, 2).Draw(t, "bystanders"); i > 0; i-- {
			cmds = append(cmds, database.Command{Command: "other tool", Description: "unrelated " + x})
		}
		db := gen.Load(t, cmds)
		q := rapid.SampledFrom([]string{k + " " + x + " " + y, x + " " + y + " " + k, y + " " + k + " " + x}).Draw(t, "q")
		nlp := rapid.IntRange(0, 3).Draw(t, "nlp") > 0
		opt := database.SearchOptions{Limit: rapid.SampledFrom([]int{0, 1, 2, 10}).Draw(t, "limit"), UseNLP: nlp, AllPlatforms: true}
		full := opt
		full.Limit = len(cmds) + 1
		ia, ib := -1, -1
		for i := range cmds {
			if cmds[i].Command == x+" "+y {
				ia = i
			}
			if cmds[i].Command == k+" "+x {
				ib = i
			}
		}
		diff := func(b float64) (float64, bool) {
			o := full
			o.ContextBoosts = map[string]float64{y: b}
			var sa, sb float64
			fa, fb := false, false
			for _, r := range db.SearchUniversal(q, o) {
				switch gen.IndexOf(db, r.Command) {
				case ia:
					sa, fa = r.Score, true
				case ib:
					sb, fb = r.Score, true
				}
			}
			return sa - sb, fa && fb
		}
		lo, hi := 1.0, 1e6
		dlo, ok1 := diff(lo)
		dhi, ok2 := diff(hi)
		found := ok1 && ok2 && dlo < 0 && dhi > 0
		gap := math.Inf(1)
		var probes []float64
		if found {
			for i := 0; i < 80 && math.Nextafter(lo, hi) < hi; i++ {
				mid := lo + (hi-lo)/2
				if d, ok := diff(mid); ok && d < 0 {
					lo = mid
				} else {
					hi = mid
				}
			}
			probes = []float64{lo, hi, math.Nextafter(lo, 0), math.Nextafter(hi, 1e9), lo * (1 - 1e-13), hi * (1 + 1e-13), lo * (1 - 1e-11), hi * (1 + 1e-11)}
			if d, ok := diff(lo); ok {
				gap = math.Abs(d)
			}
			if d, ok := diff(hi); ok {
				gap = math.Min(gap, math.Abs(d))
			}
		} else {
			probes = []float64{1, 2}
		}
		for _, b := range probes {
			for _, o := range []database.SearchOptions{opt, full} {
				o.ContextBoosts = map[string]float64{y: b}
				res := db.SearchUniversal(q, o)
				lim := o.Limit
				if lim <= 0 {
					lim = c01Default["universal"]
				}
				if msg := validList(db, res, lim); msg != "" {
					t.Fatalf("%s\n query %q, context weight %s=%v (scores of %q and %q cross between %v and %v), options %v\n answer %s\n db=%v", msg, q, y, b, x+" "+y, k+" "+x, lo, hi, optBrief(o), rankStr(rank(db, res)), gen.BriefDB(cmds, 6))
				}
			}
		}
		labels := []string{"sought-near-tie"}
		if found {
			labels = append(labels, "crossing-found")
		}
		if nlp {
			labels = append(labels, "language-stage-on")
		}
		rec.Case(found && gap < 1e-9*100, map[string]any{"query": q, "nlp": nlp, "crossing_between": []float64{lo, hi}, "score_gap_at_crossing": gap, "db": gen.BriefDB(cmds, 4)}, labels...)
	})
}
