package props

import (
	"encoding/binary"
	"math"
	"os"
	"runtime"
	"testing"

	"github.com/Vedant9500/WTF/internal/database"
	"github.com/Vedant9500/WTF/internal/embedding"
	"github.com/Vedant9500/WTF/verifharness/gen"
	"github.com/Vedant9500/WTF/verifharness/stat"
)

// Native go-fuzz targets (coverage-guided, byte level). In the quick tier they run as
// plain tests over their seed corpus (f.Add values + testdata/fuzz files); the thorough
// tier runs bounded `go test -fuzz` campaigns. Each target carries its property's
// semantic oracle, not just "does not crash". A campaign is not seed-reproducible; the
// saved failing input is.

// optionsFromBits decodes fuzzer-chosen bytes into search options (incl. extreme values).
func optionsFromBits(b uint64, lim int64, cap64 int64) database.SearchOptions {
	o := database.SearchOptions{
		Limit:           int(lim),
		TopTermsCap:     int(cap64),
		UseNLP:          b&1 != 0,
		UseFuzzy:        b&2 != 0,
		PipelineOnly:    b&4 != 0,
		AllPlatforms:    b&8 != 0,
		NoCrossPlatform: b&16 != 0,
	}
	switch (b >> 5) & 3 {
	case 1:
		o.FuzzyThreshold = -30
	case 2:
		o.FuzzyThreshold = 40
	case 3:
		o.FuzzyThreshold = math.MinInt
	}
	switch (b >> 7) & 3 {
	case 1:
		o.PipelineBoost = 2
	case 2:
		o.PipelineBoost = math.Inf(1)
	case 3:
		o.PipelineBoost = math.NaN()
	}
	if b&(1<<9) != 0 {
		o.Platforms = []string{"windows"}
	}
	if b&(1<<10) != 0 {
		o.ContextBoosts = map[string]float64{"find": 2, "git": 1.5}
	}
	return o
}

func FuzzC10_LoadSearch(f *testing.F) {
	rec := stat.For("C10")
	seeds := []string{
		"- command: tar -czf a.tgz d\n  description: compress a directory\n  keywords: [archive, tar]\n  platform: [linux]\n  pipeline: false\n",
		"- command: \"a\\0b find\"\n  description: \"\\0\"\n",
		"no such file or directory", "permission denied", "- [", "&a [*a,*a]", "- command: !!binary \"/w==\"\n", "[]", "",
		"- command: x\n  keywords: y\n", "- command: {a: b}\n", "---\n- command: a\n---\n- command: b\n",
		"- {\"no such file or directory\": 1, \"no such file or directory\": 2}", "- command: a\n---\n- [\n",
	}
	for i, s := range seeds {
		f.Add([]byte(s), []string{"find", "a\x00", "", "tar zip", "\xff"}[i%5], uint64(i*37), int64([]int{5, 0, -1, 1 << 62, math.MaxInt}[i%5]), int64(i%4))
	}
	f.Fuzz(func(t *testing.T, data []byte, query string, bits uint64, lim int64, termCap int64) {
		if len(data) > 64<<10 || len(query) > 4096 {
			t.Skip()
		}
		o := optionsFromBits(bits, lim, termCap)
		msg, loaded := c10Case(data, query, o)
		if msg != "" {
			t.Fatalf("%s\n file (%d bytes): %+q\n query=%+q options=%v", msg, len(data), clip(string(data)), clip(query), optBrief(o))
		}
		rec.Case(true, map[string]any{"fuzz": true, "file": clip(string(data)), "query": clip(query), "loaded": loaded}, "fuzz-seed-corpus")
	})
}

func FuzzC14_ValidateQuery(f *testing.F) {
	rec := stat.For("C14")
	for _, s := range []string{"find files", "  a  b ", "\x00", "a\x1bb", "\xc2\x00\x80", "\xc2\n\x80", "a<b", "x\u2028y", "\xff\xff\xff", "\u00a0", "a\tb\nc", "é😀", "\xe2\x80", "$"} {
		f.Add([]byte(s))
	}
	long := make([]byte, 1000)
	for i := range long {
		long[i] = 0xff
	}
	f.Add(long)
	f.Add(append([]byte("a"), long[:999]...))
	f.Fuzz(func(t *testing.T, data []byte) {
		q := string(data)
		msg, acc, o := c14Check(q)
		if msg != "" {
			t.Fatalf("%s\n input  (%d bytes) %+q\n output (%d bytes) %+q", msg, len(q), clip(q), len(o), clip(o))
		}
		rec.Case(acc && o != q, map[string]any{"fuzz": true, "input": clip(q), "accepted": acc}, "fuzz-seed-corpus")
	})
}

func FuzzC16_HistoryFile(f *testing.F) {
	rec := stat.For("C16")
	for _, s := range []string{"", "{}", "null", `{"entries":[],"max_size":-5}`, `{"entries":[],"max_size":0}`, `{"entries":"x","max_size":-1}`,
		`{"entries":[{"query":"a","timestamp":"2025-01-02T03:04:05Z","results_count":1}],"max_size":1}`, `{"entries":[{"query":7}],"max_size":-5}`,
		`{"max_size":1e3}`, `{"entries":null}`, "{", `{"entries":[{"query":"a","timestamp":"bad"}],"max_size":-9223372036854775808}`} {
		f.Add([]byte(s))
	}
	f.Fuzz(func(t *testing.T, data []byte) {
		if len(data) > 64<<10 {
			t.Skip()
		}
		path := gen.TempPath(".json")
		defer os.Remove(path)
		if err := os.WriteFile(path, data, 0o644); err != nil {
			t.Skip()
		}
		if msg := c16Record(path, "find files"); msg != "" {
			t.Fatalf("%s\n file content: %+q", msg, clip(string(data)))
		}
		rec.Case(true, map[string]any{"fuzz": true, "file": clip(string(data))}, "fuzz-seed-corpus")
	})
}

func FuzzC19_EmbeddingFiles(f *testing.F) {
	rec := stat.For("C19")
	hdr := func(v ...uint32) []byte {
		b := make([]byte, 4*len(v))
		for i, x := range v {
			binary.LittleEndian.PutUint32(b[4*i:], x)
		}
		return b
	}
	f.Add(hdr(0xFFFFFFFF), hdr(0xFFFFFFFF, 100))
	f.Add(hdr(1<<31), hdr(10737419, 100))
	f.Add(hdr(0), hdr(0, 100))
	f.Add(append(hdr(1), 0xff, 0xff, 'a'), hdr(1<<28+1, 100))
	f.Add([]byte{}, hdr(2, 99))
	f.Fuzz(func(t *testing.T, glove, cmd []byte) {
		if len(glove) > 64<<10 || len(cmd) > 64<<10 {
			t.Skip()
		}
		gp, cp := gen.TempPath(".bin"), gen.TempPath(".bin")
		defer os.Remove(gp)
		defer os.Remove(cp)
		os.WriteFile(gp, glove, 0o644)
		os.WriteFile(cp, cmd, 0o644)
		var before, after runtime.MemStats
		runtime.ReadMemStats(&before)
		idx, err := embedding.LoadWordVectors(gp)
		if err != nil || idx == nil {
			idx = &embedding.Index{Dimension: 100, WordVectors: map[string][]float32{}}
		}
		_ = idx.LoadCommandEmbeddings(cp)
		_ = idx.EmbedQuery("find files")
		_ = idx.SemanticScores(make([]float32, idx.Dimension))
		runtime.ReadMemStats(&after)
		// memory in proportion to the files: generous constant + 64x their size
		budget := uint64(32<<20) + 64*uint64(len(glove)+len(cmd))
		if used := after.TotalAlloc - before.TotalAlloc; used > budget {
			t.Fatalf("loading %d + %d bytes of embedding files allocated %d bytes (budget %d)", len(glove), len(cmd), used, budget)
		}
		rec.Case(len(glove) >= 4 || len(cmd) >= 8, map[string]any{"fuzz": true, "glove_bytes": len(glove), "cmd_bytes": len(cmd)}, "fuzz-seed-corpus")
	})
}
