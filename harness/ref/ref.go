// Package ref holds the reference models the oracles are built from. Nothing here
// shares code with the engine: tokenizer, BM25F scorer, eligibility predicate and
// subsequence matcher are re-implemented from the documented behaviour.
package ref

import (
	"math"
	"strings"
	"unicode"

	"github.com/Vedant9500/WTF/internal/database"
	"github.com/Vedant9500/WTF/internal/nlp"
)

var stop = nlp.StopWords() // the exported table, so re-tuning the stop words is followed

// IsStop reports whether w is a stop word.
func IsStop(w string) bool { return stop[w] }

// Tokenize returns the content words of s: lower-case, maximal runs of ASCII letters
// and digits, at least two bytes long, not a stop word.
func Tokenize(s string) []string {
	s = strings.ToLower(s)
	var out []string
	var cur []byte
	flush := func() {
		if len(cur) >= 2 && !stop[string(cur)] {
			out = append(out, string(cur))
		}
		cur = cur[:0]
	}
	for _, r := range s {
		if r < 128 && (r >= 'a' && r <= 'z' || r >= '0' && r <= '9') {
			cur = append(cur, byte(r))
		} else {
			flush()
		}
	}
	flush()
	return out
}

// LowersToASCII reports whether s contains a non-ASCII rune whose lower-case form is
// ASCII (U+0130, U+212A): for these the order of lower-casing and stripping matters.
func LowersToASCII(s string) bool {
	for _, r := range s {
		if r >= 128 && unicode.ToLower(r) < 128 {
			return true
		}
	}
	return false
}

// Distinct reports whether all strings differ.
func Distinct(xs []string) bool {
	seen := map[string]bool{}
	for _, x := range xs {
		if seen[x] {
			return false
		}
		seen[x] = true
	}
	return true
}

// Params are the BM25F parameters in force (read through the verif hook).
type Params struct {
	K1     float64
	W, B   [4]float64
	MinIDF float64
}

// Doc holds the per-field token lists of one command (command, description, keywords, tags).
type Doc struct{ F [4][]string }

// Index tokenizes all commands.
func Index(cmds []database.Command) []Doc {
	docs := make([]Doc, len(cmds))
	for i, c := range cmds {
		docs[i].F[0] = Tokenize(c.Command)
		docs[i].F[1] = Tokenize(c.Description)
		docs[i].F[2] = Tokenize(strings.Join(c.Keywords, " "))
		docs[i].F[3] = Tokenize(strings.Join(c.Tags, " "))
	}
	return docs
}

// Has reports whether the document contains term in any field.
func (d Doc) Has(term string) bool {
	for f := 0; f < 4; f++ {
		for _, x := range d.F[f] {
			if x == term {
				return true
			}
		}
	}
	return false
}

// Score recomputes the field-weighted BM25F sum for every document that contains at
// least one of terms and passes eligible (nil = all eligible).
func Score(docs []Doc, terms []string, boosts map[string]float64, p Params, eligible func(i int) bool) map[int]float64 {
	n := len(docs)
	out := map[int]float64{}
	if n == 0 {
		return out
	}
	var avg [4]float64
	for _, d := range docs {
		for f := 0; f < 4; f++ {
			avg[f] += float64(len(d.F[f]))
		}
	}
	for f := 0; f < 4; f++ {
		avg[f] /= float64(n)
		if avg[f] <= 0 {
			avg[f] = 1
		}
	}
	for _, term := range terms {
		df := 0
		for _, d := range docs {
			if d.Has(term) {
				df++
			}
		}
		if df == 0 {
			continue
		}
		idf := math.Log((float64(n)-float64(df)+0.5)/(float64(df)+0.5) + 1)
		if idf < p.MinIDF {
			continue
		}
		boost := 1.0
		if bb, ok := boosts[term]; ok && bb > 0 {
			boost = bb
		}
		for i, d := range docs {
			if eligible != nil && !eligible(i) {
				continue
			}
			var s float64
			hit := false
			for f := 0; f < 4; f++ {
				tf := 0
				for _, x := range d.F[f] {
					if x == term {
						tf++
					}
				}
				if tf == 0 {
					continue
				}
				hit = true
				norm := (1 - p.B[f]) + p.B[f]*(float64(len(d.F[f]))/avg[f])
				tfw := p.W[f] * float64(tf)
				s += (tfw * (p.K1 + 1)) / (tfw + p.K1*norm)
			}
			if hit {
				out[i] += idf * boost * s
			}
		}
	}
	return out
}

// ---- eligibility (C04) ----------------------------------------------------------------

// CanonPlatform maps a platform tag to its canonical name through the documented alias
// table (darwin, macos* -> macos; cmd, powershell, windows* -> windows; unix, bash, zsh,
// linux* -> linux), case-insensitively. Unknown tags map to themselves (lower-cased).
func CanonPlatform(p string) string {
	p = strings.ToLower(strings.TrimSpace(p))
	switch {
	case p == "darwin" || strings.HasPrefix(p, "macos"):
		return "macos"
	case p == "cmd" || p == "powershell" || strings.HasPrefix(p, "windows"):
		return "windows"
	case p == "unix" || p == "bash" || p == "zsh" || strings.HasPrefix(p, "linux"):
		return "linux"
	}
	return p
}

// IsPipeline is the documented notion of a pipeline command.
func IsPipeline(c *database.Command) bool {
	return c.Pipeline || strings.Contains(c.Command, "|") || strings.Contains(c.Command, "&&") ||
		strings.Contains(c.Command, ">>") || strings.Contains(strings.ToLower(c.Command), "pipe")
}

// PlatformViolation reports whether returning c under the given options breaches the
// platform rule of C04 (one-directional: entries without platforms are never flagged).
func PlatformViolation(c *database.Command, opt database.SearchOptions, host string, isTool func(string) bool) bool {
	if opt.AllPlatforms || len(c.Platform) == 0 {
		return false
	}
	inForce := opt.Platforms
	if len(inForce) == 0 {
		inForce = []string{host}
	}
	for _, p := range c.Platform {
		for _, f := range inForce {
			if CanonPlatform(p) == CanonPlatform(f) {
				return false // direct match
			}
		}
	}
	if opt.NoCrossPlatform {
		return true
	}
	for _, p := range c.Platform {
		if strings.EqualFold(strings.TrimSpace(p), "cross-platform") {
			return false
		}
	}
	return !isTool(c.Command)
}

// ---- subsequence matcher (C07) ----------------------------------------------------------

// FoldSubsequence reports whether the runes of q occur in text in order under simple
// case folding.
func FoldSubsequence(q, text string) bool {
	qr := []rune(q)
	if len(qr) == 0 {
		return true
	}
	i := 0
	for _, r := range text {
		if foldEq(r, qr[i]) {
			i++
			if i == len(qr) {
				return true
			}
		}
	}
	return false
}

func foldEq(a, b rune) bool {
	if a == b {
		return true
	}
	for x := unicode.SimpleFold(a); x != a; x = unicode.SimpleFold(x) {
		if x == b {
			return true
		}
	}
	return false
}
