// Package proc runs child processes for the checks that must observe the real binary:
// isolated HOME, optional RLIMIT_FSIZE / RLIMIT_AS (set by re-executing the test binary as
// a tiny launcher that calls setrlimit and then execve), optional uid switch, watchdog.
package proc

import (
	"bytes"
	"context"
	"fmt"
	"os"
	"os/exec"
	"path/filepath"
	"strconv"
	"strings"
	"syscall"
	"time"
)

var helpers = map[string]func(args []string) int{}

// RegisterHelper registers a helper entry point reachable as VERIF_HELPER=<name>.
func RegisterHelper(name string, fn func(args []string) int) { helpers[name] = fn }

// MaybeRunHelper runs a helper if this process was started as one. It never returns in
// that case (it exits or execs).
func MaybeRunHelper() bool {
	name := os.Getenv("VERIF_HELPER")
	if name == "" {
		return false
	}
	if name == "rlimit" {
		runRlimit()
		return true
	}
	if fn, ok := helpers[name]; ok {
		os.Exit(fn(os.Args[1:]))
	}
	fmt.Fprintf(os.Stderr, "verif: unknown helper %q\n", name)
	os.Exit(97)
	return true
}

func runRlimit() {
	set := func(env string, res int) {
		v := os.Getenv(env)
		if v == "" {
			return
		}
		n, err := strconv.ParseUint(v, 10, 64)
		if err != nil {
			fmt.Fprintf(os.Stderr, "verif: bad %s\n", env)
			os.Exit(97)
		}
		lim := syscall.Rlimit{Cur: n, Max: n}
		if os.Getenv("VERIF_RLIMIT_SOFT") != "" {
			// soft limit only: the parent raises it step by step while the child runs (prlimit64 on a
			// process of the same user may move the soft limit up to the hard one without privilege)
			var cur syscall.Rlimit
			if syscall.Getrlimit(res, &cur) == nil {
				lim.Max = cur.Max
			}
		}
		if err := syscall.Setrlimit(res, &lim); err != nil {
			fmt.Fprintf(os.Stderr, "verif: setrlimit: %v\n", err)
			os.Exit(97)
		}
	}
	set("VERIF_RLIMIT_FSIZE", syscall.RLIMIT_FSIZE)
	set("VERIF_RLIMIT_AS", syscall.RLIMIT_AS)
	if len(os.Args) < 2 {
		os.Exit(97)
	}
	var env []string
	for _, e := range os.Environ() {
		if !strings.HasPrefix(e, "VERIF_HELPER=") && !strings.HasPrefix(e, "VERIF_RLIMIT_") {
			env = append(env, e)
		}
	}
	// SIGXFSZ must not kill the child: Go programs see EFBIG from write(2) instead.
	err := syscall.Exec(os.Args[1], os.Args[1:], env)
	fmt.Fprintf(os.Stderr, "verif: exec %s: %v\n", os.Args[1], err)
	os.Exit(97)
}

// Cmd describes a child process.
type Cmd struct {
	Path    string
	Args    []string
	Env     []string // full environment (nil = minimal)
	Dir     string
	Stdin   string
	Timeout time.Duration
	FSize   int64  // RLIMIT_FSIZE in bytes, <0 = none
	AS      int64  // RLIMIT_AS in bytes, <=0 = none
	UID     int    // run as this uid/gid when > 0
	Helper  string // run the test binary itself as this helper instead of Path
}

// Result is what a child left behind.
type Result struct {
	Stdout, Stderr string
	ExitCode       int
	Signaled       bool
	Signal         string
	TimedOut       bool
	Err            string
}

// Panicked reports whether the output shows a Go panic or runtime fatal error.
func (r Result) Panicked() bool {
	all := r.Stdout + "\n" + r.Stderr
	return strings.Contains(all, "panic:") || strings.Contains(all, "fatal error:") || strings.Contains(all, "goroutine 1 [")
}

// MinTimeout is the shortest time limit Run applies to a child.
const MinTimeout = 180 * time.Second

// Run starts the child and waits for it (or kills it at the timeout).
func Run(c Cmd) Result {
	// The children do milliseconds of work. A time limit exists only to end a genuine hang, so it
	// is never below MinTimeout: on a loaded machine (dozens of compilers and test shards at once)
	// a child has been seen to take more than 30 s, and slowness must never read as a failure.
	if c.Timeout < MinTimeout {
		c.Timeout = MinTimeout
	}
	ctx, cancel := context.WithTimeout(context.Background(), c.Timeout)
	defer cancel()
	self, _ := os.Executable()
	var cmd *exec.Cmd
	env := c.Env
	if env == nil {
		env = []string{"PATH=/usr/bin:/bin", "LANG=C.UTF-8"}
	}
	switch {
	case c.Helper != "":
		cmd = exec.CommandContext(ctx, self, c.Args...)
		env = append(append([]string{}, env...), "VERIF_HELPER="+c.Helper)
	case c.FSize >= 0 || c.AS > 0:
		cmd = exec.CommandContext(ctx, self, append([]string{c.Path}, c.Args...)...)
		env = append(append([]string{}, env...), "VERIF_HELPER=rlimit")
		if c.FSize >= 0 {
			env = append(env, "VERIF_RLIMIT_FSIZE="+strconv.FormatInt(c.FSize, 10))
		}
		if c.AS > 0 {
			env = append(env, "VERIF_RLIMIT_AS="+strconv.FormatInt(c.AS, 10))
		}
	default:
		cmd = exec.CommandContext(ctx, c.Path, c.Args...)
	}
	cmd.Env = env
	cmd.Dir = c.Dir
	if c.Stdin != "" {
		cmd.Stdin = strings.NewReader(c.Stdin)
	}
	if c.UID > 0 {
		cmd.SysProcAttr = &syscall.SysProcAttr{Credential: &syscall.Credential{Uid: uint32(c.UID), Gid: uint32(c.UID)}}
	}
	var so, se bytes.Buffer
	cmd.Stdout, cmd.Stderr = &so, &se
	cmd.WaitDelay = 2 * time.Second
	err := cmd.Run()
	res := Result{Stdout: so.String(), Stderr: se.String()}
	if ctx.Err() == context.DeadlineExceeded {
		res.TimedOut = true
	}
	if err != nil {
		res.Err = err.Error()
		if ee, ok := err.(*exec.ExitError); ok {
			res.ExitCode = ee.ExitCode()
			if ws, ok := ee.Sys().(syscall.WaitStatus); ok && ws.Signaled() {
				res.Signaled = true
				res.Signal = ws.Signal().String()
			}
		} else {
			res.ExitCode = -1
		}
	}
	return res
}

// Home is an isolated HOME / XDG_CONFIG_HOME for the wtf binary.
type Home struct {
	Dir string
}

// NewHome creates an isolated home under base.
func NewHome(base string) (*Home, error) {
	d, err := os.MkdirTemp(base, "home-")
	if err != nil {
		return nil, err
	}
	if err := os.MkdirAll(filepath.Join(d, ".config"), 0o755); err != nil {
		return nil, err
	}
	return &Home{Dir: d}, nil
}

// Env returns the environment for a child that must only see this home.
func (h *Home) Env(extra ...string) []string {
	env := []string{
		"HOME=" + h.Dir,
		"XDG_CONFIG_HOME=" + filepath.Join(h.Dir, ".config"),
		"PATH=/usr/bin:/bin",
		"LANG=C.UTF-8",
		"TERM=xterm",
	}
	return append(env, extra...)
}

// Notebook is the personal notebook path the CLI uses under this home.
func (h *Home) Notebook() string {
	return filepath.Join(h.Dir, ".config", "cmd-finder", "personal.yml")
}

// History is the search-history path the CLI uses under this home.
func (h *Home) History() string {
	return filepath.Join(h.Dir, ".config", "wtf", "search_history.json")
}

// Remove deletes the home.
func (h *Home) Remove() { _ = os.RemoveAll(h.Dir) }

// Wtf returns the path of the built CLI ($VERIF_WTF).
func Wtf() string { return os.Getenv("VERIF_WTF") }
