// Package gen holds the shared rapid generators: words, texts, command entries,
// databases (materialised as YAML files and loaded with the real loader), queries and
// search options. All randomness comes from rapid draws.
package gen

import (
	"bytes"
	"encoding/base64"
	"fmt"
	"math"
	"os"
	"path/filepath"
	"regexp"
	"sort"
	"strings"
	"sync"
	"sync/atomic"
	"unicode"
	"unicode/utf8"

	"github.com/Vedant9500/WTF/internal/database"
	"pgregory.net/rapid"
)

// Vocab mixes NLP action words, target words, stop words, synonym keys, cross-platform
// tool names, non-tools, short tokens and digit-bearing tokens.
var Vocab = []string{
	// actions
	"find", "search", "list", "show", "create", "make", "delete", "remove", "compress", "extract",
	"install", "run", "copy", "move", "kill", "edit", "change", "view", "archive", "download",
	// targets
	"file", "files", "directory", "folder", "process", "network", "ip", "port", "repo", "branch",
	"commit", "permission", "user", "zip", "tar", "contents", "service",
	// stop words
	"the", "to", "a", "in", "go", "up", "how", "of", "and", "is",
	// tools / non-tools
	"git", "docker", "npm", "curl", "grep", "ls", "cat", "sed", "awk", "kubectl",
	"apt", "ipconfig", "systemctl", "brew", "mkdir", "chmod", "ps", "df", "du",
	// misc
	"xz", "qq", "foo", "bar", "baz", "disk", "usage", "qm", "x1", "7z", "log", "text", "windows", "manage",
	"status", "all", "size", "name", "pipe", "json", "k8s",
	// capitalised stop / action words as they appear in real descriptions ("Get disk usage", "The ...")
	"The", "Get", "How", "To", "Find", "List",
}

// UnicodePool holds non-ASCII words and separators used where Unicode is in scope.
var UnicodePool = []string{
	"café", "ÜBER", "naïve", "日本語", "данные", "Ωmega", "x²", "٣٤", "áb", "emoji😀tar",
	"ﬁle", "Ǆ", "ǅ", "ß", "ẞ", "tar​zip", "tar zip", "é", "Ünïcödé", "ΣΑΣ", "σας",
	"tar zip", "Ⅻ", "ǆ", "ﬀ", "İ", "ı", "ſ", "K", // the last four are case-irregular (labelled hostile)
}

// CaseLength holds strings whose lower-case form has a different byte length (shorter:
// U+212A, U+212B, U+1E9E, U+0130; longer: U+023A, U+023E) - hostile to code that slices a
// lower-cased text with offsets taken from the original.
var CaseLength = []string{"\u212a\u212a\u212a", "\u212b\u212b", "\u1e9e\u1e9e\u1e9e", "\u0130\u0130\u0130\u0130", "\u023a\u023a\u023a", "\u023e\u023e", "\u212aill \u212a", "\u212a8s"}

// CaseIrregular reports whether s contains a rune whose simple-fold orbit is not
// case-regular (members lower-case differently): U+0130, U+0131, U+017F, U+212A, ...
func CaseIrregular(s string) bool {
	for _, r := range s {
		if !OrbitRegular(r) {
			return true
		}
	}
	return false
}

// OrbitRegular reports whether every member of r's SimpleFold orbit has the same ToLower.
func OrbitRegular(r rune) bool {
	lo := unicode.ToLower(r)
	for x := unicode.SimpleFold(r); x != r; x = unicode.SimpleFold(x) {
		if unicode.ToLower(x) != lo {
			return false
		}
	}
	return true
}

// Word draws one ASCII word.
func Word() *rapid.Generator[string] {
	return rapid.OneOf(
		rapid.SampledFrom(Vocab), rapid.SampledFrom(Vocab), rapid.SampledFrom(Vocab),
		rapid.StringMatching(`[a-z]{1,6}`),
		rapid.StringMatching(`[A-Za-z0-9_.\-]{1,8}`),
	)
}

// UWord draws an ASCII or Unicode-pool word (no case-irregular runes unless irregular is true).
func UWord(irregular bool) *rapid.Generator[string] {
	pool := UnicodePool
	if !irregular {
		pool = nil
		for _, w := range UnicodePool {
			if !CaseIrregular(w) {
				pool = append(pool, w)
			}
		}
	}
	runeGen := rapid.Rune().Filter(func(r rune) bool { return r != 0 && (irregular || OrbitRegular(r)) })
	return rapid.OneOf(Word(), Word(), rapid.SampledFrom(pool), rapid.StringOfN(runeGen, 1, 5, -1))
}

var seps = []string{" ", " ", " ", " ", "  ", "-", ".", ", ", "/", "_", "\t"}

// TextOf joins min..max words drawn from w with mixed separators.
func TextOf(w *rapid.Generator[string], min, max int) *rapid.Generator[string] {
	return rapid.Custom(func(t *rapid.T) string {
		ws := rapid.SliceOfN(w, min, max).Draw(t, "words")
		var b strings.Builder
		for i, x := range ws {
			if i > 0 {
				b.WriteString(rapid.SampledFrom(seps).Draw(t, "sep"))
			}
			b.WriteString(x)
		}
		return b.String()
	})
}

// Text is TextOf(Word()).
func Text(min, max int) *rapid.Generator[string] { return TextOf(Word(), min, max) }

// Platforms is the pool of platform tags.
var Platforms = []string{"linux", "macos", "windows", "cross-platform", "darwin", "powershell", "cmd", "unix", "bash", "Linux", "WINDOWS", "freebsd", "Cross-Platform", "zsh", "windows-cmd", "macos-arm"}

// PlatformList draws none / one / several platform tags.
func PlatformList() *rapid.Generator[[]string] {
	return rapid.Custom(func(t *rapid.T) []string {
		switch rapid.IntRange(0, 5).Draw(t, "pl-kind") {
		case 0, 1:
			return nil
		case 2, 3:
			return []string{rapid.SampledFrom(Platforms).Draw(t, "pl")}
		default:
			return rapid.SliceOfN(rapid.SampledFrom(Platforms), 2, 3).Draw(t, "pls")
		}
	})
}

// CmdOpts tunes Command().
type CmdOpts struct {
	Unicode   bool // allow Unicode-pool words
	Irregular bool // allow case-irregular runes
	Platforms bool // draw platform tags
	NoPipe    bool // never set the pipeline flag / pipe text
	NoBlank   bool // never generate a blank command line
	Sized     bool // sometimes a command line (and category) from SizedText
	Long      bool // sometimes a description of 300-700 bytes whose last word uses letters found nowhere before it
	Heavy     bool // DB(): sometimes one entry gets a word repeated 255..1000 (rarely 65536+) times within one field
}

// headWords use only the letters a-m, tailWords only n-z: a query built from a tail word can
// match a long text only through its very end.
var headWords = []string{"black", "fame", "email", "like", "mall", "chef", "idea", "jade", "kid", "ham", "half", "deal", "back", "cafe", "milk", "bike", "high", "ice", "lab", "gem"}
var tailWords = []string{"syntax", "zoom", "tryst", "sprout", "worry", "torpor", "nosy", "yours", "wyvern", "quoz", "putt", "sunny"}

// LongText draws a text of 300-700 bytes made of head words, ended by one tail word.
func LongText(t *rapid.T) string {
	n := rapid.IntRange(55, 120).Draw(t, "long-words")
	ws := make([]string, 0, n+1)
	for i := 0; i < n; i++ {
		ws = append(ws, headWords[(i*7+n)%len(headWords)])
	}
	ws = append(ws, rapid.SampledFrom(tailWords).Draw(t, "long-tail"))
	return strings.Join(ws, " ")
}

// LongTail returns the last word of a LongText-style description ("" if c has none).
func LongTail(c *database.Command) string {
	if len(c.Description) < 257 {
		return ""
	}
	f := strings.Fields(c.Description)
	return f[len(f)-1]
}

// Command draws one command entry.
func Command(o CmdOpts) *rapid.Generator[database.Command] {
	w := Word()
	if o.Unicode {
		w = UWord(o.Irregular)
	}
	return rapid.Custom(func(t *rapid.T) database.Command {
		c := database.Command{
			Command:     TextOf(w, 1, 4).Draw(t, "cmd"),
			Description: TextOf(w, 0, 10).Draw(t, "desc"),
			Keywords:    rapid.SliceOfN(TextOf(w, 1, 2), 0, 4).Draw(t, "kw"),
			Tags:        rapid.SliceOfN(w, 0, 2).Draw(t, "tags"),
		}
		if o.Irregular && rapid.IntRange(0, 11).Draw(t, "case-length-cmd") == 0 {
			// a command made of letters whose lower-case form changes byte length, with little else
			c.Command = rapid.SampledFrom(CaseLength).Draw(t, "case-length")
			if rapid.Bool().Draw(t, "bare") {
				c.Description, c.Keywords, c.Tags = rapid.SampledFrom([]string{"", "x"}).Draw(t, "short-desc"), nil, nil
			}
		}
		if o.Sized && rapid.IntRange(0, 11).Draw(t, "sized-text") == 0 {
			c.Command = SizedText(t, true)
			if rapid.Bool().Draw(t, "sized-niche") {
				c.Niche = SizedText(t, false)
			}
		}
		if o.Long && rapid.IntRange(0, 9).Draw(t, "long-text") == 0 {
			c.Description = LongText(t)
		}
		if !o.NoBlank && rapid.IntRange(0, 23).Draw(t, "blank-cmd") == 0 {
			c.Command = rapid.SampledFrom([]string{"", " ", "  "}).Draw(t, "blank") // well-formed but blank command line
		}
		if rapid.IntRange(0, 3).Draw(t, "niche?") == 0 {
			c.Niche = rapid.SampledFrom([]string{"git", "docker", "system", "network", "Files"}).Draw(t, "niche")
		}
		if o.Platforms {
			c.Platform = PlatformList().Draw(t, "platform")
		}
		if !o.NoPipe {
			switch rapid.IntRange(0, 7).Draw(t, "pipe-kind") {
			case 0:
				c.Pipeline = true
			case 1:
				c.Command += rapid.SampledFrom([]string{" | ", " && ", " >> ", " pipe "}).Draw(t, "pipe-op") + w.Draw(t, "pipe-rhs")
			case 2:
				// redirections and background jobs that look like pipeline operators but are none
				c.Command += rapid.SampledFrom([]string{" 2>&1", " &> out.log", " > out", " 2> err", " &", " < in", " >&2", " >& f", " 1>&2 > x", " & disown"}).Draw(t, "pipe-lookalike")
			}
		}
		return c
	})
}

// DBClass names the shape of a generated database.
type DBClass string

// DB draws a database (as a command list) and reports its class.
// classes: weights for "empty","one","tie","small","medium" in that order (nil = default).
func DB(t *rapid.T, o CmdOpts, classes []int) ([]database.Command, DBClass) {
	cmds, cls := dbOfClass(t, o, classes)
	if o.Heavy && len(cmds) > 0 && rapid.IntRange(0, 11).Draw(t, "heavy-repeat") == 0 {
		c := &cmds[rapid.IntRange(0, len(cmds)-1).Draw(t, "heavy-entry")]
		n := rapid.SampledFrom([]int{255, 256, 257, 300, 511, 512, 513, 1000}).Draw(t, "heavy-n")
		if rapid.IntRange(0, 19).Draw(t, "very-heavy") == 0 {
			n = rapid.SampledFrom([]int{65535, 65536, 65537}).Draw(t, "very-heavy-n")
		}
		hw := rapid.SampledFrom([]string{"echo", "retry", "loop", "zz", "tar"}).Draw(t, "heavy-word")
		rep := strings.TrimSpace(strings.Repeat(hw+" ", n))
		switch rapid.IntRange(0, 3).Draw(t, "heavy-field") {
		case 0:
			c.Command = rep
		case 1:
			c.Description = rep
		case 2:
			c.Keywords = []string{rep}
		default:
			c.Tags = strings.Fields(rep)
		}
	}
	if o.Long && len(cmds) >= 2 && rapid.IntRange(0, 9).Draw(t, "long-twins") == 0 {
		// two entries carry different words of 65-200 letters that agree on a long prefix
		// (digests, generated identifiers): each is a word of its own
		n := rapid.SampledFrom([]int{64, 65, 70, 100, 128, 200}).Draw(t, "twin-prefix")
		stem := strings.Repeat(rapid.SampledFrom([]string{"a", "x7", "deadbeef"}).Draw(t, "twin-stem"), n)[:n]
		i, j := rapid.IntRange(0, len(cmds)-1).Draw(t, "twin-i"), rapid.IntRange(0, len(cmds)-1).Draw(t, "twin-j")
		if i != j {
			cmds[i].Description += " " + stem + "1"
			cmds[j].Keywords = append(append([]string{}, cmds[j].Keywords...), stem+"2")
		}
	}
	return cmds, cls
}

func dbOfClass(t *rapid.T, o CmdOpts, classes []int) ([]database.Command, DBClass) {
	if classes == nil {
		classes = []int{1, 2, 6, 9, 1}
	}
	names := []DBClass{"empty", "one", "tie", "small", "medium", "large"}
	total := 0
	for _, w := range classes {
		total += w
	}
	pick := rapid.IntRange(0, total-1).Draw(t, "db-class")
	cls := names[len(names)-1]
	for i, w := range classes {
		if pick < w {
			cls = names[i]
			break
		}
		pick -= w
	}
	switch cls {
	case "empty":
		return nil, cls
	case "one":
		return []database.Command{Command(o).Draw(t, "only")}, cls
	case "tie":
		base := rapid.SliceOfN(Command(o), 1, 4).Draw(t, "tie-base")
		var out []database.Command
		for _, b := range base {
			k := rapid.IntRange(1, 5).Draw(t, "copies")
			for i := 0; i < k; i++ {
				c := b
				switch rapid.IntRange(0, 4).Draw(t, "tie-variant") {
				case 1:
					c.Niche = fmt.Sprintf("n%d", i) // differs only in a non-searched field
				case 2:
					c.Command = strings.ReplaceAll(c.Command, "-", "_") // like qm move_disk / qm move-disk
				case 3:
					if i%2 == 1 {
						c.Tags = []string{fmt.Sprintf("owntag%d", i), "backup"} // same text, different tags (a notebook copy of a built-in entry)
					}
				}
				out = append(out, c)
			}
		}
		extra := rapid.SliceOfN(Command(o), 0, 4).Draw(t, "tie-extra")
		out = append(out, extra...)
		return out, cls
	case "small":
		return rapid.SliceOfN(Command(o), 2, 30).Draw(t, "small"), cls
	default:
		// medium: 100..400 entries built combinatorially from a few drawn parts; large: 550..1200
		n := rapid.IntRange(100, 400).Draw(t, "medium-n")
		if cls == "large" {
			n = rapid.IntRange(550, 1200).Draw(t, "large-n")
		}
		return Bulk(t, n, o), cls
	}
}

// Ubiquitous puts one shared word into (nearly) every entry of cmds, in a field drawn per
// entry: a query for it matches the whole database and its inverse document frequency is
// as small as it can get. Returns the word ("" when nothing was done).
func Ubiquitous(t *rapid.T, cmds []database.Command) string {
	if len(cmds) < 2 {
		return ""
	}
	w := rapid.SampledFrom([]string{"docker", "common", "cmd", "tool", "sudo"}).Draw(t, "ubiquitous-word")
	skip := -1
	if rapid.Bool().Draw(t, "all-but-one") {
		skip = rapid.IntRange(0, len(cmds)-1).Draw(t, "ubiquitous-skip")
	}
	field := rapid.IntRange(0, 4).Draw(t, "ubiquitous-field")
	for i := range cmds {
		if i == skip {
			continue
		}
		f := field
		if f == 4 {
			f = i % 4
		}
		switch f {
		case 0:
			cmds[i].Command = w + " " + cmds[i].Command
		case 1:
			cmds[i].Description += " " + w
		case 2:
			cmds[i].Keywords = append(append([]string{}, cmds[i].Keywords...), w)
		default:
			cmds[i].Tags = append(append([]string{}, cmds[i].Tags...), w)
		}
	}
	return w
}

// Bulk builds n entries combinatorially from a few drawn parts (many entries share words,
// so single-word queries match dozens to hundreds of entries).
func Bulk(t *rapid.T, n int, o CmdOpts) []database.Command {
	{
		parts := rapid.SliceOfN(Word(), 6, 12).Draw(t, "medium-parts")
		out := make([]database.Command, n)
		for i := range out {
			a, b, c := parts[i%len(parts)], parts[(i/len(parts))%len(parts)], parts[(i*7+3)%len(parts)]
			out[i] = database.Command{
				Command:     a + " " + b,
				Description: b + " " + c + " " + a,
				Keywords:    []string{c, a},
			}
			if o.Platforms && i%5 == 0 {
				out[i].Platform = []string{Platforms[i%len(Platforms)]}
			}
			if !o.NoPipe && i%11 == 0 {
				out[i].Pipeline = true
			}
		}
		return out
	}
}

// Tokens returns the lower-cased alphanumeric tokens (len>=2) of the searchable fields.
func Tokens(cmds []database.Command) []string {
	seen := map[string]bool{}
	var out []string
	add := func(s string) {
		for _, w := range strings.FieldsFunc(strings.ToLower(s), func(r rune) bool { return !unicode.IsLetter(r) && !unicode.IsNumber(r) }) {
			if len(w) >= 2 && !seen[w] {
				seen[w] = true
				out = append(out, w)
			}
		}
	}
	for _, c := range cmds {
		add(c.Command)
		add(c.Description)
		for _, k := range c.Keywords {
			add(k)
		}
		for _, k := range c.Tags {
			add(k)
		}
	}
	return out
}

// Typo mutates one letter of w (delete / transpose / insert / substitute).
func Typo(t *rapid.T, w string) string {
	rs := []rune(w)
	if len(rs) < 2 {
		return w + "x"
	}
	i := rapid.IntRange(0, len(rs)-1).Draw(t, "typo-pos")
	switch rapid.IntRange(0, 3).Draw(t, "typo-kind") {
	case 0:
		return string(append(append([]rune{}, rs[:i]...), rs[i+1:]...))
	case 1:
		if i+1 < len(rs) {
			rs[i], rs[i+1] = rs[i+1], rs[i]
		}
		return string(rs)
	case 2:
		ins := rune('a' + rapid.IntRange(0, 25).Draw(t, "typo-ins"))
		return string(append(append(append([]rune{}, rs[:i]...), ins), rs[i:]...))
	default:
		rs[i] = rune('a' + rapid.IntRange(0, 25).Draw(t, "typo-sub"))
		return string(rs)
	}
}

// QueryClass labels the query generator branch.
type QueryClass string

// Query draws a query related to cmds and reports its class.
// allow selects classes; nil means all "engine-sound" ones
// (vocab, nlp, stop, punct, one, long, typo, fragment).
func Query(t *rapid.T, cmds []database.Command, allow []QueryClass) (string, QueryClass) {
	if allow == nil {
		allow = []QueryClass{"vocab", "vocab", "vocab", "nlp", "stop", "punct", "one", "long", "typo", "typo", "fragment", "mixed", "sized"}
	}
	toks := Tokens(cmds)
	fromDB := rapid.SampledFrom(append([]string{"zzqx"}, toks...))
	cls := rapid.SampledFrom(allow).Draw(t, "q-class")
	switch cls {
	case "vocab":
		return TextOf(fromDB, 1, 4).Draw(t, "q"), cls
	case "nlp":
		nlpw := rapid.SampledFrom([]string{"find", "show", "create", "delete", "compress", "install", "list", "file", "files", "directory", "folder", "ip", "process", "how", "to", "the", "manage", "windows", "contents", "without opening", "see", "permission"})
		if rapid.IntRange(0, 3).Draw(t, "nlp-clues") == 0 {
			// short sentences from the context-clue words alone, complete and cut-off phrases alike
			return ClueSentence(t), cls
		}
		// NLPWords: every word the language heuristics know, phrases also split into their words
		return TextOf(rapid.OneOf(nlpw, fromDB, rapid.SampledFrom(NLPWords)), 1, 6).Draw(t, "q"), cls
	case "inflected":
		// inflected forms (plural, -ing, -ed, -er, possessive) of the single words the language
		// heuristics know, next to those words themselves and words of the database
		return TextOf(rapid.OneOf(Inflected(), Inflected(), rapid.SampledFrom(nlpSingle()), fromDB), 1, 5).Draw(t, "q"), cls
	case "stop":
		return TextOf(rapid.SampledFrom([]string{"the", "to", "a", "in", "go", "up", "how", "of"}), 1, 4).Draw(t, "q"), cls
	case "punct":
		return rapid.StringOfN(rapid.RuneFrom([]rune("!?.,-_/()[]{}#@%^*+=~'\": ")), 1, 6, -1).Draw(t, "q"), cls
	case "one":
		return rapid.StringMatching(`[a-z0-9]`).Draw(t, "q"), cls
	case "long":
		return TextOf(rapid.OneOf(fromDB, Word()), 11, 16).Draw(t, "q"), cls
	case "typo":
		w := fromDB.Draw(t, "typo-base")
		return Typo(t, w), cls
	case "fragment":
		w := fromDB.Draw(t, "frag-base")
		rs := []rune(w)
		n := rapid.IntRange(1, len(rs)).Draw(t, "frag-len")
		return string(rs[:n]), cls
	case "unicode":
		return TextOf(rapid.OneOf(UWord(false), fromDB), 1, 4).Draw(t, "q"), cls
	case "sized":
		return SizedText(t, rapid.Bool().Draw(t, "sized-q-spaces")), cls
	case "arbitrary":
		return rapid.String().Draw(t, "q"), cls
	default: // mixed
		return TextOf(rapid.OneOf(fromDB, Word()), 1, 6).Draw(t, "q"), "mixed"
	}
}

// OptSpec tunes Options().
type OptSpec struct {
	N           int  // database size (for limit choices)
	BigLimit    bool // force Limit >= N
	NoPlatforms bool // AllPlatforms=true always (eligibility out of scope)
	NoPipeline  bool // PipelineOnly=false
	FixNLP      *bool
	FixFuzzy    *bool
	NoBoosts    bool
	BoostWords  []string
	Thresholds  []int
	NoNegLimit  bool
}

// Options draws a SearchOptions value.
func Options(t *rapid.T, s OptSpec) database.SearchOptions {
	var o database.SearchOptions
	if s.BigLimit {
		o.Limit = s.N + rapid.IntRange(0, 5).Draw(t, "limit-extra")
		if o.Limit == 0 {
			o.Limit = 1
		}
	} else {
		lims := []int{0, 1, 2, 3, 5, 10, s.N - 1, s.N, s.N + 3, 1000}
		if !s.NoNegLimit {
			lims = append(lims, -5, -1)
		}
		o.Limit = rapid.SampledFrom(lims).Draw(t, "limit")
	}
	if s.FixNLP != nil {
		o.UseNLP = *s.FixNLP
	} else {
		o.UseNLP = rapid.Bool().Draw(t, "nlp")
	}
	if s.FixFuzzy != nil {
		o.UseFuzzy = *s.FixFuzzy
	} else {
		o.UseFuzzy = rapid.Bool().Draw(t, "fuzzy")
	}
	th := s.Thresholds
	if th == nil {
		th = []int{0, 0, -30, -100, 5, 40}
	}
	o.FuzzyThreshold = rapid.SampledFrom(th).Draw(t, "threshold")
	if !s.NoPipeline {
		o.PipelineOnly = rapid.IntRange(0, 3).Draw(t, "pipeline-only") == 0
		o.PipelineBoost = rapid.SampledFrom([]float64{0, 0, 0.5, 2}).Draw(t, "pipeline-boost")
	}
	if s.NoPlatforms {
		o.AllPlatforms = true
	} else {
		o.AllPlatforms = rapid.IntRange(0, 3).Draw(t, "all-platforms") == 0
		if rapid.Bool().Draw(t, "platforms?") {
			o.Platforms = rapid.SliceOfN(rapid.SampledFrom([]string{"linux", "windows", "macos", "Windows", "darwin", "cross-platform", "freebsd", "powershell", "", "w", "lin", "mac", " linux"}), 1, 2).Draw(t, "platforms")
			if rapid.IntRange(0, 5).Draw(t, "many-platforms") == 0 {
				// long lists: every major platform named explicitly is still a list, not "all platforms"
				o.Platforms = rapid.SampledFrom([][]string{{"linux", "macos", "windows"}, {"windows", "linux", "macos", "linux"}, {"linux", "darwin", "windows"}, {"macos", "windows", "linux", "freebsd"}, {"linux", "macos"}, {"Linux", "MacOS", "Windows"}}).Draw(t, "platform-list")
			}
		}
		o.NoCrossPlatform = rapid.IntRange(0, 2).Draw(t, "no-cross") == 0
	}
	if !s.NoBoosts && rapid.Bool().Draw(t, "boosts?") {
		words := s.BoostWords
		if len(words) == 0 {
			words = Vocab
		}
		n := rapid.IntRange(1, 3).Draw(t, "boost-n")
		o.ContextBoosts = map[string]float64{}
		for i := 0; i < n; i++ {
			w := rapid.SampledFrom(words).Draw(t, "boost-word")
			o.ContextBoosts[w] = rapid.SampledFrom([]float64{1, 1.3, 1.5, 2, 3, 1.3, 2, 0.5, 0, -2, math.NaN(), 5e-324, 1e-300}).Draw(t, "boost-factor") // non-positive and NaN factors are ignored by the engine
			// real boost maps also hold Makefile targets and npm script names: compound keys
			// and case variants that share a word with another key
			if rapid.IntRange(0, 2).Draw(t, "boost-variant") == 0 {
				v := rapid.SampledFrom([]string{strings.ToUpper(w), w + "-build", "run:" + w, w + " all", strings.Title(w)}).Draw(t, "boost-variant-key") //nolint:staticcheck
				o.ContextBoosts[v] = rapid.SampledFrom([]float64{1.1, 1.3, 2, 2.5}).Draw(t, "boost-variant-factor")
			}
		}
	}
	o.TopTermsCap = rapid.SampledFrom([]int{0, 0, 1, 3, 10, 20}).Draw(t, "terms-cap")
	return o
}

// YQ renders s as a YAML double-quoted scalar using only printable ASCII; invalid
// UTF-8 is rendered as a !!binary scalar.
func YQ(s string) string {
	if !utf8.ValidString(s) {
		return "!!binary \"" + base64.StdEncoding.EncodeToString([]byte(s)) + "\""
	}
	var b strings.Builder
	b.WriteByte('"')
	for _, r := range s {
		switch {
		case r == '"':
			b.WriteString(`\"`)
		case r == '\\':
			b.WriteString(`\\`)
		case r >= 0x20 && r <= 0x7e:
			b.WriteRune(r)
		case r <= 0xff:
			fmt.Fprintf(&b, `\x%02x`, r)
		case r <= 0xffff:
			fmt.Fprintf(&b, `\u%04x`, r)
		default:
			fmt.Fprintf(&b, `\U%08x`, r)
		}
	}
	b.WriteByte('"')
	return b.String()
}

// EmitYAML writes a command list as YAML that yaml.v3 decodes back exactly.
func EmitYAML(cmds []database.Command) []byte {
	if len(cmds) == 0 {
		return []byte("[]\n")
	}
	list := func(xs []string) string {
		q := make([]string, len(xs))
		for i, x := range xs {
			q[i] = YQ(x)
		}
		return "[" + strings.Join(q, ", ") + "]"
	}
	var b strings.Builder
	for _, c := range cmds {
		fmt.Fprintf(&b, "- command: %s\n  description: %s\n  keywords: %s\n  tags: %s\n  niche: %s\n  platform: %s\n  pipeline: %v\n",
			YQ(c.Command), YQ(c.Description), list(c.Keywords), list(c.Tags), YQ(c.Niche), list(c.Platform), c.Pipeline)
	}
	return []byte(b.String())
}

var fileSeq atomic.Int64

// WorkDir returns the scratch directory of this process (under $VERIF_WORK or the cwd).
func WorkDir() string {
	d := os.Getenv("VERIF_WORK")
	if d == "" {
		d, _ = os.Getwd()
	}
	return d
}

// TempPath returns a fresh file path in the scratch directory.
func TempPath(suffix string) string {
	return filepath.Join(WorkDir(), fmt.Sprintf("f%d-%d%s", os.Getpid(), fileSeq.Add(1), suffix))
}

// Fataler is the part of *rapid.T / *testing.T that the helpers need.
type Fataler interface {
	Fatalf(format string, args ...any)
}

// WriteDB writes cmds to a fresh YAML file and returns its path (caller removes it).
func WriteDB(t Fataler, cmds []database.Command) string {
	p := TempPath(".yml")
	if err := os.WriteFile(p, EmitYAML(cmds), 0o644); err != nil {
		t.Fatalf("harness: write %s: %v", p, err)
	}
	return p
}

// Load materialises cmds as a YAML file and loads it with the real loader.
func Load(t Fataler, cmds []database.Command) *database.Database {
	p := WriteDB(t, cmds)
	defer os.Remove(p)
	db, err := database.LoadDatabase(p)
	if err != nil {
		t.Fatalf("harness: generated database does not load: %v\n%s", err, EmitYAML(cmds))
	}
	if len(db.Commands) != len(cmds) {
		t.Fatalf("harness: generated database loaded %d of %d entries", len(db.Commands), len(cmds))
	}
	return db
}

// IndexOf returns the index of the entry r points at in db.Commands, or -1.
func IndexOf(db *database.Database, c *database.Command) int {
	for i := range db.Commands {
		if c == &db.Commands[i] {
			return i
		}
	}
	return -1
}

// Brief renders a command for samples.
func Brief(c database.Command) map[string]any {
	m := map[string]any{"command": c.Command}
	if c.Description != "" {
		m["description"] = c.Description
	}
	if len(c.Keywords) > 0 {
		m["keywords"] = c.Keywords
	}
	if len(c.Tags) > 0 {
		m["tags"] = c.Tags
	}
	if len(c.Platform) > 0 {
		m["platform"] = c.Platform
	}
	if c.Pipeline {
		m["pipeline"] = true
	}
	if c.Niche != "" {
		m["niche"] = c.Niche
	}
	return m
}

// BriefDB renders up to n commands for samples.
func BriefDB(cmds []database.Command, n int) []any {
	var out []any
	for i, c := range cmds {
		if i >= n {
			out = append(out, fmt.Sprintf("... %d more", len(cmds)-n))
			break
		}
		out = append(out, Brief(c))
	}
	return out
}

// HeavyWord returns the word of a Heavy-style field (one word repeated >= 255 times) in cmds, or "".
func HeavyWord(cmds []database.Command) string {
	check := func(s string) string {
		if len(s) < 255*3 {
			return ""
		}
		f := strings.Fields(s)
		if len(f) >= 255 && f[0] == f[len(f)-1] && f[0] == f[len(f)/2] {
			return f[0]
		}
		return ""
	}
	for i := range cmds {
		c := &cmds[i]
		for _, s := range []string{c.Command, c.Description, strings.Join(c.Keywords, " "), strings.Join(c.Tags, " ")} {
			if w := check(s); w != "" {
				return w
			}
		}
	}
	return ""
}

// SizedText draws a text of a chosen length built from runes of one width (1-4 bytes) or a
// mix, so that its byte length and its rune count straddle different thresholds: code that
// tests one and cuts by the other is only reached by such inputs. spaces adds blanks.
func SizedText(t *rapid.T, spaces bool) string {
	units := [][]rune{[]rune("a"), []rune("é"), []rune("д"), []rune("日"), []rune("語"), []rune("😀"), []rune("a日"), []rune("ab語д")}
	u := units[rapid.IntRange(0, len(units)-1).Draw(t, "sized-unit")]
	n := rapid.OneOf(
		rapid.SampledFrom([]int{15, 16, 17, 20, 21, 24, 25, 33, 34, 44, 45, 46, 48, 49, 50, 51, 64, 85, 96, 97, 98, 100, 101, 127, 128, 129, 255, 256, 257, 333, 334, 500, 999, 1000}),
		rapid.IntRange(1, 400),
	).Draw(t, "sized-runes")
	rs := make([]rune, 0, n)
	for i := 0; len(rs) < n; i++ {
		if spaces && i%7 == 6 {
			rs = append(rs, ' ')
			continue
		}
		rs = append(rs, u[i%len(u)])
	}
	return string(rs)
}

// NLPWords lists the words and phrases the language heuristics treat specially (mined from the
// string literals of internal/nlp at the pinned commit), with every phrase also split into its
// words so that incomplete phrases ("... without") are generated too.
var NLPWords = []string{"-x", "a", "access", "account", "active", "adapter", "add", "address", "all", "alter", "an", "analysis", "analyze", "and", "apt", "archive", "archives", "are", "as", "assemble", "at", "awk", "b", "backup", "be", "been", "begin", "branch", "brew", "build", "bundle", "but", "by", "c", "call", "cat", "change", "changes", "check", "chmod", "chown", "clean", "clear", "clone", "code", "come", "command", "commit", "compile", "compress", "config", "configuration", "configure", "configure ssh keys for github", "connection", "connections", "content", "contents", "control", "copy", "could", "cp", "create", "create new directory", "curl", "cut", "daemon", "daemons", "data", "day", "decompress", "delete", "deploy", "destroy", "df", "did", "dir", "directories", "directory", "dirs", "discover", "disk", "display", "docker", "document", "documents", "down", "download", "du", "duplicate", "each", "echo", "edit", "editing", "editor", "emacs", "empty", "end", "erase", "execute", "executing", "execution", "expand", "extract", "fetch", "file", "files", "find", "find all text files in directory", "find files", "first", "folder", "folders", "for", "from", "general", "generate", "get", "git", "github", "go", "grep", "group", "gunzip", "gzip", "had", "has", "have", "he", "head", "her", "him", "host", "how", "how to commit changes in git", "how to find the files in a directory", "htop", "if", "ifconfig", "in", "inside", "install", "install docker on ubuntu", "installation", "interface", "into", "ip", "ipconfig", "is", "it", "its", "job", "jobs", "keys", "kill", "launch", "less", "like", "link", "list", "live", "locate", "location", "log", "logs", "look", "lookup", "ls", "made", "make", "manage", "many", "map", "math", "may", "mkdir", "modify", "more", "move", "multiple", "multiple spaces", "mv", "my", "nano", "netstat", "network", "network interface address", "new", "newlines", "nil", "no", "now", "npm", "of", "oil", "old", "on", "opening", "out", "pack", "package", "packages", "part", "path", "paths", "permission", "permissions", "pip", "pkill", "port", "ports", "post", "print", "printf", "process", "processes", "processing", "program", "project", "ps", "publish", "pull", "push", "query", "query with newlines", "query with tabs", "query-with-hyphens", "read", "ref", "reflect", "regexp", "release", "relocate", "remote", "remove", "remove old files", "rename", "replace", "repo", "repository", "retrieve", "revision", "rights", "rm", "rmdir", "rsync", "run", "running", "said", "scp", "search", "sed", "see", "send", "server", "service", "services", "set", "setup", "she", "shift", "ship", "show", "simple", "simple query", "sit", "site", "so", "socket", "some", "something", "sort", "source", "space", "spaces", "ss", "ssh", "start", "stop", "storage", "strings", "synonyms", "synonyms map is nil", "system", "tabs", "tail", "tar", "tar -x", "task", "tasks", "terminate", "test", "testing", "text", "than", "that", "the", "their", "them", "then", "these", "they", "this", "time", "to", "tools", "top", "transfer", "two", "ubuntu", "unarchive", "unicode", "unknown", "unpack", "untar", "unzip", "up", "update", "upload", "url", "usage", "user", "users", "validate", "verify", "vi", "view", "vim", "was", "way", "website", "wget", "what", "which", "who", "will", "windows", "with", "without", "without editing", "without opening", "would", "yum", "zip"}

// ClueSentence draws a short sentence from the context-clue words of the language heuristics
// alone: complete phrases ("see contents without opening") and cut-off ones ("show it without").
func ClueSentence(t *rapid.T) string {
	clue := rapid.SampledFrom([]string{"see", "view", "show", "display", "read", "look", "without", "without", "opening", "editing", "without opening", "without editing", "file", "contents", "it", "inside", "tar -x", "network interface address"})
	return TextOf(clue, 1, 5).Draw(t, "clue-sentence")
}

var nlpSingleCache []string

// nlpSingle lists the single words (3+ letters, letters only) among NLPWords.
func nlpSingle() []string {
	if nlpSingleCache == nil {
		for _, w := range NLPWords {
			ok := len(w) >= 3
			for _, r := range w {
				if r < 'a' || r > 'z' {
					ok = false
				}
			}
			if ok {
				nlpSingleCache = append(nlpSingleCache, w)
			}
		}
	}
	return nlpSingleCache
}

// Inflected draws an inflected form of a single word the language heuristics know: plural,
// -es, -ies, -ing (with and without the final e), -ed, -er, possessive, or the singular of a word
// that is listed in the plural.
func Inflected() *rapid.Generator[string] {
	return rapid.Custom(func(t *rapid.T) string {
		w := rapid.SampledFrom(nlpSingle()).Draw(t, "base-word")
		stem := strings.TrimSuffix(w, "e")
		switch rapid.IntRange(0, 9).Draw(t, "inflection") {
		case 0, 1, 2:
			if strings.HasSuffix(w, "y") {
				return strings.TrimSuffix(w, "y") + "ies"
			}
			if strings.HasSuffix(w, "s") || strings.HasSuffix(w, "x") || strings.HasSuffix(w, "ch") || strings.HasSuffix(w, "sh") {
				return w + "es"
			}
			return w + "s"
		case 3:
			return w + "es"
		case 4:
			return stem + "ing"
		case 5:
			return w + "ing"
		case 6:
			return stem + "ed"
		case 7:
			return stem + "er"
		case 8:
			return w + "'s"
		default:
			if strings.HasSuffix(w, "s") {
				return strings.TrimSuffix(w, "s")
			}
			return w + "s"
		}
	})
}

// LanguagePack returns one plain entry per single word the language heuristics know, so that
// whatever word that stage adds to a query (a synonym, a hint, a stem) is a word of the database.
func LanguagePack() []database.Command {
	var out []database.Command
	for _, w := range nlpSingle() {
		out = append(out, database.Command{Command: w + " --" + w, Description: "about " + w})
	}
	return out
}

// ---- process environment ----

var (
	envNamesOnce  sync.Once
	envNames      []string
	envReferenced []string // the names the tree's own source mentions
	envNameRe     = regexp.MustCompile(`(?:Getenv|LookupEnv)\(\s*"([A-Za-z_][A-Za-z0-9_]*)"`)
	envLitRe      = regexp.MustCompile(`"([A-Z][A-Z0-9]*(?:_[A-Z0-9]+)+)"`)
)

// never varied: they change what the Go runtime, the shell or the harness itself does, or they
// are the documented way to point wtf at its files (the isolated home sets those)
var envKeep = map[string]bool{"PATH": true, "HOME": true, "XDG_CONFIG_HOME": true, "APPDATA": true, "USERPROFILE": true, "TMPDIR": true,
	"GODEBUG": true, "GOTRACEBACK": true, "GOGC": true, "GOMEMLIMIT": true, "GOMAXPROCS": true, "GORACE": true, "GOCOVERDIR": true}

// EnvNames lists the environment variables a process of the code under test might look at: every
// name the source tree under $VERIF_REPO passes to os.Getenv / os.LookupEnv or holds as an
// ENV_STYLE string literal (non-test files), plus names that commonly steer platform, locale,
// terminal and time behaviour. Computed once per process from the tree being checked.
func EnvNames() []string {
	envNamesOnce.Do(func() {
		seen := map[string]bool{}
		add := func(n string) {
			if !seen[n] && !envKeep[n] && !strings.HasPrefix(n, "VERIF_") {
				seen[n] = true
				envNames = append(envNames, n)
			}
		}
		for _, n := range []string{"WSL_DISTRO_NAME", "WSL_INTEROP", "WTF_PLATFORM", "WTF_DEBUG", "WTF_CONFIG", "WTF_CACHE", "OSTYPE", "OS", "MSYSTEM", "TERM_PROGRAM",
			"LANG", "LC_ALL", "LC_CTYPE", "LANGUAGE", "TZ", "COLUMNS", "LINES", "CI", "DEBUG", "SHELL", "USER", "EDITOR", "PAGER", "PWD", "HOSTNAME", "TERM", "XDG_DATA_HOME", "XDG_CACHE_HOME"} {
			add(n)
		}
		root := os.Getenv("VERIF_REPO")
		if root == "" {
			root = "/repo"
		}
		for _, sub := range []string{"internal", "cmd"} {
			filepath.WalkDir(filepath.Join(root, sub), func(p string, d os.DirEntry, err error) error {
				if err != nil || d.IsDir() || !strings.HasSuffix(p, ".go") || strings.HasSuffix(p, "_test.go") || strings.HasPrefix(filepath.Base(p), "verif_") {
					return nil
				}
				data, err := os.ReadFile(p)
				if err != nil {
					return nil
				}
				ref := func(n string) {
					if !envKeep[n] && !strings.HasPrefix(n, "VERIF_") && !strings.Contains(n, "COLOR") {
						dup := false
						for _, o := range envReferenced {
							dup = dup || o == n
						}
						if !dup {
							envReferenced = append(envReferenced, n)
						}
					}
					add(n)
				}
				for _, m := range envNameRe.FindAllSubmatch(data, -1) {
					ref(string(m[1]))
				}
				if bytes.Contains(data, []byte("Getenv(")) || bytes.Contains(data, []byte("LookupEnv(")) {
					for _, m := range envLitRe.FindAllSubmatch(data, -1) {
						ref(string(m[1]))
					}
				}
				return nil
			})
		}
		sort.Strings(envNames)
		sort.Strings(envReferenced)
	})
	return envNames
}

// HostileEnv draws 1-6 settings NAME=value over EnvNames(): values that switch features on, name
// another platform or locale, are empty, unknown to any table, or unique to this draw.
func HostileEnv(t *rapid.T, unique string) []string {
	names := EnvNames()
	var out []string
	seen := map[string]bool{}
	for i := rapid.IntRange(1, 6).Draw(t, "env-settings"); i > 0; i-- {
		var n string
		if rapid.IntRange(0, 2).Draw(t, "env-wsl-pair") == 0 && !seen["WSL_DISTRO_NAME"] {
			// (the two a WSL session always sets together)
			seen["WSL_DISTRO_NAME"], seen["WSL_INTEROP"] = true, true
			out = append(out, "WSL_DISTRO_NAME=Ubuntu", "WSL_INTEROP=/run/WSL/8_interop")
			continue
		}
		if len(envReferenced) > 0 && rapid.Bool().Draw(t, "env-referenced-name") {
			n = rapid.SampledFrom(envReferenced).Draw(t, "env-name-from-source") // a name the source tree itself mentions
		} else {
			n = rapid.SampledFrom(names).Draw(t, "env-name")
		}
		if seen[n] {
			continue
		}
		seen[n] = true
		v := rapid.SampledFrom([]string{"", "1", "0", "true", "x", "windows", "linux", "darwin", "macos", "amiga3", "unknown-" + unique, "Ubuntu", "tr_TR.UTF-8", "C", "/nonexistent", "-1", "999999999999", "dumb", "win"}).Draw(t, "env-value")
		out = append(out, n+"="+v)
	}
	return out
}
