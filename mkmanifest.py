#!/usr/bin/env python3
"""Regenerates MANIFEST.json from plan.py and the table below (run after editing either)."""
import json, os, subprocess, sys

ROOT = os.path.dirname(os.path.abspath(__file__))
sys.path.insert(0, ROOT)
from plan import PLAN, LEVEL  # noqa: E402

META = {
    "C01": ("validity predicate over generated (database, query, options, entry point) cases + built-binary runs",
            "Generated search cases through every public entry point are checked against a validity predicate (bound by the limit in force, pointer-membership, uniqueness, finite non-negative scores, non-increasing order); the default limit is calibrated, not hard-coded. Sampling, not proof: it shows absence of violations on the explored cases only.",
            "rapid generators; Go runtime; default limits are calibrated from the engine itself (a 150-entry all-matching database)"),
    "C02": ("self-differential (bitwise) over repetitions, reloads and separate processes",
            "The same (database, query, options) is searched repeatedly, on independently loaded copies and in separate processes; ranked lists must be bit-identical. Map-order 'schedules' are explored by repetition on tie-heavy databases, not enumerated. Per-process state (tables built at initialisation) is explored by answering every language-stage word as first and last query word in six fresh processes per batch.",
            "Go's per-range map randomisation is the only source of schedule variety; cannot be seeded"),
    "C03": ("differential against an independent reference tokenizer + BM25F scorer; fresh-load differential for histories",
            "Every generated search (NLP off) is recomputed by a from-scratch reference scorer over the command texts (set equality both ways, scores within 1e-9 relative); after load/merge/replace/grow/in-place-edit histories (file-loaded and program-made entries) results must equal those of a fresh database with the same content. In a third of the cases the platform filter is on (canonical tags, first words classified by the harness) and eligibility is part of the expected set.",
            "BM25F parameters are read through a verif-tag accessor; stop-word table read from the exported nlp.StopWords(); case-irregular runes excluded (C20's subject)"),
    "C04": ("one-directional eligibility predicate over every result on every path",
            "Each result of generated searches (lexical, NLP, typo fallback, cached, legacy pipeline, built binary) is checked against an independent eligibility predicate for platform and pipeline filters, using the most permissive reading of the alias table so that no conforming implementation alarms.",
            "cross-platform tool predicate and host platform come through verif-tag accessors, anchored by fixed expectations"),
    "C05": ("rapid state machine over the caching/monitoring wrapper, differential vs an independent uncached database",
            "Generated histories of search/invalidate/enable/cleanup/update calls; after every search the answer must equal SearchUniversal on an independently loaded database with the current commands.",
            "expiry cannot elapse (fixed 5-minute lifetime, no clock hook); queries vary by case over case-regular letters only"),
    "C06": ("metamorphic relation NLP-on vs NLP-off + compositional per-word relation + analysis invariants",
            "Generated databases and queries: every NLP-off result must remain a result with NLP on (<=10 content words), each of the first four content words' matches are retained for any length, and ProcessQuery/GetEnhancedKeywords satisfy the ordering/duplicate/determinism invariants.",
            "content-word count uses the harness's reference tokenizer; Limit >= database size so windows cannot truncate"),
    "C07": ("metamorphic (fuzzy on == off when off is non-empty) + independent subsequence matcher and quality recomputation",
            "Generated typo/fragment queries: fallback never changes an existing answer; every fallback result contains the query as a case-folded subsequence, meets the threshold, is ordered best first; subsequence-completeness at threshold 0.",
            "match quality is recomputed with the same third-party matcher (sahilm/fuzzy) the engine documents; NUL excluded here (C10's subject)"),
    "C08": ("round-trip of save / save-pipeline histories through the built binary and the real loader vs an in-memory model",
            "Generated save histories with hostile argv strings run against the built binary in an isolated HOME; the reloaded notebook must equal the model list field by field, merge order main-then-notebook, and saved entries must be found by a search for their words.",
            "flag values avoid CSV metacharacters (pflag's quoting is not WTF's contract); argv cannot carry NUL"),
    "C09": ("fault enumeration over generated (state, write op) pairs: RLIMIT_FSIZE stops the write after k bytes (every k of small files, sampled k of larger ones) + strace fault injection at every traced system call of the op (SIGKILL on entry; EIO/ENOSPC/EDQUOT in the write phase) + the running child's soft limit raised in two steps (prlimit64) so short writes can be resumed",
            "For generated (state, write op) pairs the child is stopped after every prefix length k, killed on entry to every system call it makes, and has every write-phase call failed; afterwards the file must be byte-identical to the old or the new content, success must not be reported for a write that did not take effect, old entries stay loadable and a later ordinary op proceeds from the surviving state.",
            "crashes are process crashes (page cache survives): loss of unsynced data at power failure is not modelled; the crash-point tier needs a working strace (recorded as strace-unavailable otherwise)"),
    "C10": ("totality fuzzing: rapid structured generator + native go-fuzz over file bytes x query x options with error-class and round-trip oracles + generated path kinds (ENOTDIR, ENAMETOOLONG, ELOOP, dangling links ...) through every loader",
            "Arbitrary file content is loaded and searched through every entry point under a watchdog; no panic, no hang, missing file => not-found, undecodable => parse error, every well-formed list loads back equal.",
            "watchdog of 20 s stands in for 'bounded time'; native fuzz campaigns are not seed-reproducible, their saved inputs are"),
    "C11": ("generated concurrent programs under the race detector + porcupine linearizability of recorded LRU histories + sequential-answer differential",
            "Generated goroutine programs over one loaded database / cache / LRU run under -race, incl. barrier-released first use of fresh instances and concurrent requests for one query under option sets one field apart; every search must equal its sequential answer, LRU histories must be linearizable against the reference LRU model, counter totals must equal the number of calls.",
            "the harness does not own the Go scheduler: race-free atomicity bugs are found only if an observed history is non-linearizable"),
    "C12": ("rapid state machine vs a reference LRU model with interval logic for expiry",
            "Generated put/get/delete/clear/sweep histories over all capacities and lifetime regimes are compared step by step with a reference model (return values, victim identity via key sets, size bound, statistics).",
            "harness and cache read the same monotonic clock; outcomes inside the timing uncertainty are accepted either way"),
    "C13": ("metamorphic pairs with/without context boosts + analyzer invariants on generated directories",
            "Paired searches with and without boosts must return the same set; boosted-word documents never lose score, others keep theirs bit-for-bit; AnalyzeDirectory on generated directory contents is deterministic, duplicate-free, 'generic' iff nothing recognised, boosts finite and >= 1.",
            "documented marker files anchor the analyzer expectations; Limit >= database size"),
    "C14": ("independent acceptor + output predicates + idempotence over generated byte strings (rapid + native fuzz)",
            "Generated byte strings (all Unicode whitespace/control classes, invalid UTF-8, boundary lengths) are validated; acceptance must equal an independent acceptor, outputs must be clean and stable under re-validation; limits map into 1..100; the built binary must search and record exactly the validated query (generated argv with punctuation-heavy questions).",
            "the acceptor is derived from the property statement, not from the code"),
    "C15": ("fault enumeration over the (main, personal, backup) fault matrix x generated retry configurations with an attempt-observer hook",
            "Every combination of file faults is loaded through LoadDatabaseWithFallback with generated retry settings; result must be a usable database without error, the real one when it can be, with exact attempt counts and monotone bounded delays observed through the hook. Whole wait schedules (base and cap up to math.MaxInt64, odd factors, up to 400 attempts) are computed through an accessor hook and checked against [0, cap] and monotonicity without sleeping.",
            "unreadable files need a non-root child (uid 65534); delays are observed via the hook, not wall-clock"),
    "C16": ("rapid state machine vs a reference log + totality over generated history file bytes (rapid + native fuzz)",
            "Generated add/save/load (fresh and same object)/clear histories are compared with a reference log (bound, order, repeat-update, views); arbitrary file content followed by record+save must not panic and must leave the new query newest.",
            "queries may hold invalid UTF-8 (the validator passes it through); the reference log keeps a query in the form it reads back from the JSON file"),
    "C17": ("differential: built binary output vs in-process engine; JSON well-formedness; escape scan; history file; sub-command totality",
            "Generated CLI invocations in an isolated HOME: printed results must equal the engine's answer in order within the limit, JSON must decode to one object per result, no ESC bytes under no-color, exactly one matching newest history entry; every sub-command exits 0/1 without panic.",
            "in-process recomputation uses the same packages as the binary, so it checks the CLI wiring, not the engine (that is C01-C07)"),
    "C18": ("identity + exact accounting over generated metric names, tag maps and record sequences, sequential and concurrent (-race)",
            "Equal (name, tags) built in different insertion orders must return the same metric pointer; counters/histograms/monitor totals must equal the number of recorded events; percentiles monotone. A state machine over every accessor (collector methods, package-level default collector, timers, stand-alone histograms with own buckets, resets) keeps a model per identity, incl. identities that share a name or carry a derived-series name.",
            "names/tags avoid ':' and '=' (key injectivity is not part of the statement)"),
    "C19": ("totality of loaders on generated bytes in a memory-capped child + cosine laws + metamorphic search with/without an injected index",
            "Generated embedding files are loaded in a child under RLIMIT_AS; never a crash or OOM; cosine is symmetric, bounded, zero on degenerate input; an attached index can only raise scores by the bounded factor and keeps order; without files nothing changes.",
            "index injection uses a verif-tag setter; non-finite vector components only for the no-crash claim"),
    "C20": ("metamorphic: case re-spelling over case-regular fold orbits (and whitespace padding at the CLI) must not change the answer",
            "Generated queries are re-spelled rune by rune within case-regular SimpleFold orbits; SearchUniversal, cached search, pipeline search and suggestions must return identical ranked lists; the built binary must print identical results for re-cased/padded command lines.",
            "case-regular is computed from unicode tables (excludes U+0130, U+0131, U+017F; admits U+212A)"),
}


def main():
    hooks = []
    try:
        out = subprocess.run(["git", "-C", "/repo", "log", "--format=%H %s"], capture_output=True, text=True).stdout
        for line in out.splitlines():
            h, _, subj = line.partition(" ")
            if subj.startswith("verif:") or subj.startswith("hook:"):
                hooks.append(h)
    except Exception:
        pass
    checks, na = [], []
    for pid in sorted(META):
        tech, text, note = META[pid]
        if pid not in PLAN:
            na.append({"property_id": pid, "reason": "check not built yet in this round (planned: " + tech + ")"})
            continue
        c = {
            "property_id": pid,
            "quick_cmd": f"./check {pid} --tier quick",
            "evidence_file": f"/verif/evidence/{pid}.json",
            "replay_cmd_template": f"./check {pid} --replay {{path}}",
            "engine": "harness",
            "level_claimed": {"category": LEVEL.get(pid, "exploration"), "text": text, "design_ref": f"DESIGN.md section 3, {pid}"},
            "level_note": note,
            "technique": "property-based testing (pgregory.net/rapid): " + tech,
        }
        if "thorough" in PLAN[pid]:
            c["thorough_cmd"] = f"./check {pid} --tier thorough"
        checks.append(c)
    man = {
        "version": 1,
        "setup_cmd": "./check --setup",
        "hooks": {
            "guard": "verif",
            "enable": "go build/test -tags verif (the driver always passes it); hook files carry //go:build verif, their no-op twins //go:build !verif",
            "baseline_off_cmd": "cd /repo && go build ./... && go test -vet=off -count=1 ./...",
            "source_commits": hooks,
            "add_only": True,
        },
        "engines": [{
            "name": "harness", "path": "/verif/harness",
            "serves_properties": sorted(PLAN),
            "kind_free_text": "Go module (rapid v1.3.0 property tests, native go fuzz targets, porcupine as linearizability oracle, race detector) driven by /verif/check; imports /repo's internal packages through a replace directive, so it always tests the current working tree",
        }],
        "checks": checks,
        "not_applicable": na,
        "notes": "All checks are property-based tests / fuzzers with explicit oracles; see DESIGN.md. Exit 2 from ./check means inconclusive (build failure, timeout), never a violation.",
    }
    with open(os.path.join(ROOT, "MANIFEST.json"), "w") as f:
        json.dump(man, f, indent=1)
    print("wrote MANIFEST.json:", len(checks), "checks,", len(na), "not yet claimed")


if __name__ == "__main__":
    main()
