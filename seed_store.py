#!/usr/bin/env python3
"""Stores a confirmed seeded change under /verif/seeded/<name>/.

usage: seed_store.py <agent worktree> <name> <check results e.g. C12=1,C05=0> [note]
Layout: patch.diff, meta.json, demo/<relative path with / replaced by __>.
"""
import json, os, shutil, subprocess, sys

wt, name, results = sys.argv[1:4]
note = sys.argv[4] if len(sys.argv) > 4 else ""
src = os.path.join(wt, "OUT")
dst = os.path.join(os.path.dirname(os.path.abspath(__file__)), "seeded", name)
os.makedirs(os.path.join(dst, "demo"), exist_ok=True)
shutil.copy(os.path.join(src, "patch.diff"), os.path.join(dst, "patch.diff"))
meta = json.load(open(os.path.join(src, "meta.json")))
files = []
out = subprocess.run(["git", "-C", wt, "ls-files", "--others", "--exclude-standard"], capture_output=True, text=True).stdout.split("\n")
for rel in out:
    if not rel or rel.startswith("OUT/"):
        continue
    shutil.copy(os.path.join(wt, rel), os.path.join(dst, "demo", rel.replace("/", "__")))
    files.append(rel)
checks = {}
for kv in results.split(","):
    k, v = kv.split("=")
    checks[k] = int(v)
stored = {
    "property": meta.get("property"),
    "summary": meta.get("summary"),
    "needs": meta.get("needs"),
    "files_changed": meta.get("files_changed"),
    "demo_cmd": meta.get("demo_cmd"),
    "demo_files": files,
    "confirmed": {
        "how": "./mutcheck.sh: patch applied to a scratch worktree of /repo HEAD; go build ./...; go test -vet=off -count=1 ./... (existing suite, passes); demo_cmd run with the patch (fails) and with the patch reverted (passes)",
        "patch_applies": True, "builds": True, "existing_suite_passes": True,
        "demo_fails_with_change": True, "demo_passes_without_change": True,
    },
    "checks_run": {k: ("exit 1 (VIOLATION)" if v == 1 else "exit %d" % v) for k, v in checks.items()},
    "detected_by": sorted(k for k, v in checks.items() if v == 1),
    "note": note,
}
json.dump(stored, open(os.path.join(dst, "meta.json"), "w"), indent=1)
print("stored", dst, "detected_by", stored["detected_by"])
