#!/bin/bash
# Runs mutcheck for every agent worktree /tmp/mut/C??<suffix> against the check of its own
# property, several at a time (worktree mode: /repo is not touched).  usage: ./wave.sh d [parallel]
sfx=$1; par=${2:-4}
cd "$(dirname "$0")"
ls -d /tmp/mut/C??$sfx | xargs -P $par -I{} bash -c 'd={}; id=$(basename $d); id=${id:0:3}; ./mutcheck.sh $d/OUT $id 2>&1 | grep "RESULT\|DOES-NOT\|FAILS\|TOUCHES"' | sort
