#!/usr/bin/env python3
"""Rewrites the seeded-change table in DESIGN.md (between the SEEDED-TABLE markers) from seeded/*/meta.json."""
import glob, json, os, re
root = os.path.dirname(os.path.abspath(__file__))
rows = []
stats = {}
for d in sorted(glob.glob(os.path.join(root, "seeded", "*"))):
    m = json.load(open(os.path.join(d, "meta.json")))
    name = os.path.basename(d)
    summ = re.sub(r"\s+", " ", m["summary"] or "").strip().replace("|", "\\|")
    if len(summ) > 230:
        summ = summ[:227] + "…"
    needs = re.sub(r"\s+", " ", m["needs"] or "").replace("|", "\\|")
    if len(needs) > 170:
        needs = needs[:167] + "…"
    note = m.get("note") or ""
    if not m["detected_by"]:
        when = "not detected (see note in meta.json)"
    elif "missed" in note:
        when = "missed at first, caught after strengthening"
    elif "strengthened" in note or "after reading" in note:
        when = "caught; check had been strengthened beforehand"
    else:
        when = "caught on the first run"
    w = name[-1]
    stats.setdefault(w, {}).setdefault(when, 0)
    stats[w][when] += 1
    rows.append(f"| {name} | {summ} | {needs} | {', '.join(m['detected_by']) or '—'} | {when} |")
table = "| change | what it does | what it needs to manifest | detected by | when |\n|---|---|---|---|---|\n" + "\n".join(rows)
p = os.path.join(root, "DESIGN.md")
s = open(p).read()
a, b = "<!-- SEEDED-TABLE-BEGIN -->", "<!-- SEEDED-TABLE-END -->"
assert a in s and b in s
s = s[: s.index(a) + len(a)] + "\n" + table + "\n" + s[s.index(b):]
open(p, "w").write(s)
print(json.dumps(stats, indent=1))
