#!/bin/bash
# Confirms a seeded change and runs checks against it.
#   ./mutcheck.sh <src dir with patch.diff + meta.json> <check id> [more check ids...]
# <src> is either an agent's OUT/ directory or a /verif/seeded/<name>/ directory.
# Steps: in a scratch worktree under /tmp (removed afterwards):
#   1. patch applies to /repo HEAD, touches no test/hook file, builds, existing suite passes
#   2. the demonstration fails with the patch and passes without it
# then, as instructed, apply the patch to /repo, run ./check <id> (expect exit 1), revert.
set -u
src=$(realpath "$1"); shift; ids="$*"
here=$(cd "$(dirname "$0")" && pwd)
tag=$(basename "$(dirname "$src")")-$(basename "$src")
wt=/tmp/mutverify-$$
log() { echo "[mutcheck $tag] $*"; }
git -C /repo worktree add -q --detach "$wt" HEAD || exit 3
cleanup() { git -C /repo worktree remove --force "$wt" 2>/dev/null; rm -rf "$wt"; }
trap cleanup EXIT
cd "$wt" || exit 3
if ! git apply --check "$src/patch.diff" 2>/dev/null; then log "PATCH-DOES-NOT-APPLY"; exit 4; fi
git apply "$src/patch.diff"
if git diff --name-only | grep -q "_test.go$\|verif_"; then log "PATCH-TOUCHES-TESTS-OR-HOOKS"; exit 4; fi
log "files: $(git diff --name-only | tr '\n' ' ') ($(git diff --shortstat))"
if ! go build ./... 2>"$wt/.build.log"; then log "BUILD-FAILS"; cat "$wt/.build.log"; exit 4; fi
if ! go test -vet=off -count=1 ./... > "$wt/.suite.log" 2>&1; then log "EXISTING-SUITE-FAILS"; grep -v "^ok" "$wt/.suite.log" | head -20; exit 4; fi
log "patch applies, builds, existing suite passes"
demo_cmd=$(python3 -c "import json;print(json.load(open('$src/meta.json')).get('demo_cmd',''))")
python3 "$here/mut_place_demo.py" "$src" "$wt"
demo_ok=unknown
if [ -n "$demo_cmd" ]; then
  ( cd "$wt" && timeout 900 bash -c "$demo_cmd" ) > "$wt/.demo_with.log" 2>&1; with=$?
  git apply -R "$src/patch.diff"
  ( cd "$wt" && timeout 900 bash -c "$demo_cmd" ) > "$wt/.demo_without.log" 2>&1; without=$?
  git apply "$src/patch.diff"
  log "demo ($demo_cmd) exit with change=$with without=$without"
  if [ $with -ne 0 ] && [ $without -eq 0 ]; then demo_ok=yes; else demo_ok=no; tail -5 "$wt/.demo_with.log"; echo ...; tail -5 "$wt/.demo_without.log"; fi
fi
cd "$here"
rcsum=""
if [ "${MUT_IN_REPO:-0}" = "1" ]; then
  # the prescribed way: apply to /repo, run, revert straight afterwards (serial use only)
  if [ -n "$(git -C /repo status --porcelain)" ]; then log "/repo is dirty, refusing"; exit 5; fi
  git -C /repo apply "$src/patch.diff"
  for c in $ids; do
    ./check $c > "$here/.work/mut-$tag-$c.log" 2>&1; rc=$?
    rcsum="$rcsum $c=$rc"
    log "check $c exit=$rc :: $(grep -a -m1 'VIOLATION\|^OK\|INCONCLUSIVE\|BUILD-FAILED' "$here/.work/mut-$tag-$c.log")"
  done
  git -C /repo checkout -- .
  git -C /repo clean -fdq -- internal cmd 2>/dev/null
else
  # equivalent and parallel-safe: point the harness at the scratch worktree that already
  # holds the patched tree (VERIF_REPO builds with an alternate go.mod); /repo is not touched
  rm -f $(git -C "$wt" ls-files --others --exclude-standard | sed "s|^|$wt/|") 2>/dev/null
  for c in $ids; do
    VERIF_REPO="$wt" ./check $c > "$here/.work/mut-$tag-$c.log" 2>&1; rc=$?
    rcsum="$rcsum $c=$rc"
    log "check $c exit=$rc :: $(grep -a -m1 'VIOLATION\|^OK\|INCONCLUSIVE\|BUILD-FAILED' "$here/.work/mut-$tag-$c.log")"
  done
fi
log "RESULT demo=$demo_ok checks:$rcsum"
