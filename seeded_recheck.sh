#!/bin/bash
# Re-confirms every stored seeded change against /repo HEAD and re-runs the checks that are
# recorded as detecting it.  usage: ./seeded_recheck.sh [name-glob]   (e.g. 'C0*')
cd "$(dirname "$0")"
for d in seeded/${1:-*}; do
  ids=$(python3 -c "import json;print(' '.join(json.load(open('$d/meta.json'))['detected_by']))")
  ./mutcheck.sh "$d" $ids 2>&1 | grep "RESULT\|DOES-NOT\|FAILS"
done
