#!/usr/bin/env python3
"""Places the demonstration files of a seeded change into a verification worktree.

usage: mut_place_demo.py <src dir holding patch.diff + meta.json> <worktree>
If meta.json lists "demo_files" (relative paths; stored under <src>/demo/ with '/'
replaced by '__') they are restored from there (the /verif/seeded layout). Otherwise the
source is an agent's OUT/ directory and the demo files are the untracked files of the
agent's worktree (outside OUT/).
"""
import json, os, shutil, subprocess, sys

src, wt = sys.argv[1:3]
meta = json.load(open(os.path.join(src, "meta.json")))
files = meta.get("demo_files")
if files:
    for rel in files:
        os.makedirs(os.path.dirname(os.path.join(wt, rel)) or wt, exist_ok=True)
        shutil.copy(os.path.join(src, "demo", rel.replace("/", "__")), os.path.join(wt, rel))
        print("demo file", rel)
else:
    agent_wt = os.path.dirname(src.rstrip("/"))
    out = subprocess.run(["git", "-C", agent_wt, "ls-files", "--others", "--exclude-standard"], capture_output=True, text=True).stdout.split("\n")
    for rel in out:
        if not rel or rel.startswith("OUT/"):
            continue
        os.makedirs(os.path.dirname(os.path.join(wt, rel)) or wt, exist_ok=True)
        shutil.copy(os.path.join(agent_wt, rel), os.path.join(wt, rel))
        print("demo file", rel)
