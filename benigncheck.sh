#!/bin/bash
# False-alarm test: applies a behaviour-changing but property-preserving change (an agent's
# OUT/<n>.diff) to a scratch worktree of /repo HEAD, confirms that it builds (also with -tags verif)
# and that the existing suite passes, then runs the named checks against that tree. Every check is
# expected to exit 0.   usage: ./benigncheck.sh <agent worktree> <n> <check id> [more ids...]
set -u
awt=$(realpath "$1"); n=$2; shift 2; ids="$*"
here=$(cd "$(dirname "$0")" && pwd)
tag=$(basename "$awt")-$n
wt=/tmp/benverify-$$
log() { echo "[benign $tag] $*"; }
git -C /repo worktree add -q --detach "$wt" HEAD || exit 3
cleanup() { git -C /repo worktree remove --force "$wt" 2>/dev/null; rm -rf "$wt"; }
trap cleanup EXIT
cd "$wt" || exit 3
if ! git apply --check "$awt/OUT/$n.diff" 2>/dev/null; then log "PATCH-DOES-NOT-APPLY"; exit 4; fi
git apply "$awt/OUT/$n.diff"
if git diff --name-only | grep -q "_test.go$\|verif_"; then log "PATCH-TOUCHES-TESTS-OR-HOOKS"; exit 4; fi
log "files: $(git diff --name-only | tr '\n' ' ') ($(git diff --shortstat))"
if ! go build ./... 2>"$wt/.build.log" || ! go build -tags verif ./... 2>>"$wt/.build.log"; then log "BUILD-FAILS"; cat "$wt/.build.log"; exit 4; fi
if ! go test -vet=off -count=1 ./... > "$wt/.suite.log" 2>&1; then log "EXISTING-SUITE-FAILS"; grep -v "^ok" "$wt/.suite.log" | head -20; exit 4; fi
cd "$here"
rcsum=""
for c in $ids; do
  VERIF_REPO="$wt" ./check $c > "$here/.work/ben-$tag-$c.log" 2>&1; rc=$?
  rcsum="$rcsum $c=$rc"
  log "check $c exit=$rc :: $(grep -a -m1 'VIOLATION\|^OK\|INCONCLUSIVE\|BUILD-FAILED' "$here/.work/ben-$tag-$c.log")"
done
log "RESULT checks:$rcsum"
